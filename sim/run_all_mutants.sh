#!/bin/bash
# regression over every kept seeded change and every own sensitivity patch: each must make its check exit 1 (/repo itself is not touched: scratch worktrees)
cd /verif
fail=0
for d in seeded/*/; do
  id=$(basename $d); prop=$(python3 -c "import json;m=json.load(open('$d/meta.json'));print(m.get('caught_by_check') or m['breaks_property'])")
  out=$(/verif/sim/try_mutant.sh /verif/$d/patch.diff $prop 2>&1)
  ex=$(echo "$out" | grep -o "exit=[0-9]*" | head -1)
  sigs=$(echo "$out" | grep "signature:" | sed 's/.*signature: //' | tr '\n' ' ')
  echo "$id $prop $ex $sigs"
  [ "$ex" = "exit=1" ] || fail=1
done
for f in mutants/*.patch; do
  id=$(basename $f .patch); prop=${id%%-*}
  out=$(/verif/sim/try_mutant.sh /verif/$f $prop 2>&1)
  ex=$(echo "$out" | grep -o "exit=[0-9]*" | head -1)
  sigs=$(echo "$out" | grep "signature:" | sed 's/.*signature: //' | tr '\n' ' ')
  echo "own:$id $prop $ex $sigs"
  [ "$ex" = "exit=1" ] || fail=1
done
rm -f /verif/replays/C*.json
exit $fail
