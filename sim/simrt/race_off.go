//go:build !race

package simrt

const RaceBuild = false

func raceDisable() {}
func raceEnable()  {}

func RaceErrors() int { return 0 }
