package simrt

import (
	"container/heap"
	"fmt"
	"math"
	"reflect"
	"runtime/debug"
	"sync"
	"sync/atomic"
	"time"
	"unsafe"
)

type taskState uint8

const (
	stNew taskState = iota
	stRunning
	stRunnable // yield / resume after rendezvous: always enabled
	stBlocked  // pending op, enabled according to the mirrors
	stSleeping
	stDone
)

type opKind uint8

const (
	opNone opKind = iota
	opStart
	opYield
	opResume
	opSend
	opRecv
	opSelect
	opWGWait
	opLock
	opSleep
	opRWLock
	opRWRLock
)

var opNames = [...]string{"none", "start", "yield", "resume", "send", "recv", "select", "wgwait", "lock", "sleep", "rwlock", "rwrlock"}

// Config describes one simulated run.
type Config struct {
	Seed       uint64  // PRNG seed for the policy
	NumCPU     int     // value returned by the rewritten runtime.NumCPU()
	GoMaxProcs int     // value returned by the rewritten runtime.GOMAXPROCS(0); 0 = NumCPU
	Policy     string  // "canonical" | "random" | "pct" | "replay"
	PreemptP   float64 // random: probability of preemption per yield
	PCTDepth   int     // pct: number of priority change points
	PCTLen     int64   // pct: change points are drawn from [1, PCTLen] passed yields
	Replay     []int64 // replay: decision list (exhausted => canonical choice)
	Stalls     []Stall // scheduler-injected stalls
	MaxYields  int64   // budget: passed yields in the whole run
	MaxDecs    int64   // budget: scheduling decisions
	MaxTime    int64   // budget: simulated ns
	// grace after the root task returned; 0 = use the global budgets only
	GraceYields int64
	GraceTime   int64
	GraceDecs   int64
	KeepLog     bool  // keep a textual event log (replay / debugging)
	YieldNs     int64 // simulated CPU time of one passed yield point (function entry, loop iteration)
}

// Stall makes whichever task passes the global yield number At sleep for Dur ns.
type Stall struct {
	At  int64
	Dur int64
}

type PanicInfo struct {
	Role    string
	Ordinal int
	Value   string
	Stack   string
}

type LeftTask struct {
	Role    string
	Ordinal int
	State   string // "blocked" | "runnable" | "sleeping" | "new"
	Op      string
	Site    string
	// yields this task passed after the root task had returned (activity, as
	// opposed to merely being alive)
	YieldsAfterRoot int64
}

type Stats struct {
	Yields       int64
	Decisions    int64
	Tasks        int
	MaxLive      int
	Switches     int64
	Rendezvous   int64
	SelectMulti  int64 // selects dispatched with >= 2 enabled clauses
	PickMulti    int64 // scheduling points with >= 2 enabled tasks
	TimersFired  int64
	TimersOrphan int64
	TimersSet    int64
	StallsFired  int64
	Preemptions  int64
	SimTime      int64
	ClockJumps   int64
	MapOrders    int64
	Roles        map[string]int
	PanicOnRole  string
	RootDoneAtY  int64
	RootDoneAtT  int64
	RootDoneAtD  int64
	LiveAtRootDn int
}

type Result struct {
	End         string // complete | quiescent | deadlock | panic | yield-budget | decision-budget | time-budget | grace-yields | grace-time
	RootDone    bool
	Panic       *PanicInfo
	Leftover    []LeftTask
	Decisions   []int64
	Fingerprint uint64
	Stats       Stats
	Log         []string
	// task goroutines that could not be ended (always 0 in a returned result: Run panics otherwise)
	TeardownIncomplete int
}

// rwState mirrors a sync.RWMutex: active readers, an active writer, Lock calls that wait
type rwState struct {
	readers int
	writer  bool
	wwait   int
}

type chanState struct {
	ord    int
	ref    any
	cap    int
	count  int
	closed bool
	timer  bool
}

type timerEnt struct {
	at  int64
	seq uint64
	t   *Task
	cs  *chanState
	tch chan time.Time
}

type timerHeap []timerEnt

//go:norace
func (h timerHeap) Len() int { return len(h) }

//go:norace
func (h timerHeap) Less(i, j int) bool {
	if h[i].at != h[j].at {
		return h[i].at < h[j].at
	}
	return h[i].seq < h[j].seq
}

//go:norace
func (h timerHeap) Swap(i, j int) { h[i], h[j] = h[j], h[i] }

//go:norace
func (h *timerHeap) Push(x any) { *h = append(*h, x.(timerEnt)) }

//go:norace
func (h *timerHeap) Pop() any {
	o := *h
	n := len(o)
	x := o[n-1]
	*h = o[:n-1]
	return x
}

type sched struct {
	cfg   Config
	req   chan request
	join  sync.WaitGroup
	liveG int64   // task goroutines that have not finished yet (atomic)
	tasks []*Task // every task of the run (for reports)
	alive []*Task // tasks that have not exited yet, in creation order
	live  int
	chans map[unsafe.Pointer]*chanState
	wgs   map[unsafe.Pointer]*int64
	mus   map[unsafe.Pointer]*bool
	rws   map[unsafe.Pointer]*rwState
	tim   timerHeap
	tseq  uint64
	rng   uint64

	root     *Task
	passed   int64 // yields passed in the whole run
	given    int64 // quantum handed out at the last baton hand-off
	decs     []int64
	rpos     int
	fp       uint64
	stallIx  int
	pctPts   []int64
	pctIx    int
	lowPrio  int64
	roleCnt  map[string]int
	last     *Task
	res      *Result
	ended    bool
	enabledB []*Task
	candB    []*Task

	endRequested string
}

//go:norace
func panicString(r any) string {
	switch v := r.(type) {
	case error:
		return fmt.Sprintf("%T: %s", r, v.Error())
	case string:
		return v
	default:
		return fmt.Sprintf("%T: %v", r, r)
	}
}

//go:norace
func stackTrace() []byte { return debug.Stack() }

const inf = math.MaxInt64 / 4

//go:norace
func (s *sched) rnd() uint64 {
	s.rng += 0x9e3779b97f4a7c15
	z := s.rng
	z = (z ^ (z >> 30)) * 0xbf58476d1ce4e5b9
	z = (z ^ (z >> 27)) * 0x94d049bb133111eb
	return z ^ (z >> 31)
}

//go:norace
func (s *sched) mix(vals ...int64) {
	for _, v := range vals {
		s.fp ^= uint64(v)
		s.fp *= 0x100000001b3
	}
}

//go:norace
func (s *sched) logf(format string, a ...any) {
	if s.cfg.KeepLog {
		s.res.Log = append(s.res.Log, fmt.Sprintf(format, a...))
	}
}

// decide returns a choice in [0,n) (n==0: unbounded non-negative) and records it.
// canonical choice is always 0.
//
//go:norace
func (s *sched) decide(kind string, n int64, fresh func() int64) int64 {
	var v int64
	switch s.cfg.Policy {
	case "replay":
		if s.rpos < len(s.cfg.Replay) {
			v = s.cfg.Replay[s.rpos]
			s.rpos++
			if v < 0 || (n > 0 && v >= n) {
				v = 0
			}
		}
	case "canonical":
		v = 0
	default:
		v = fresh()
	}
	s.decs = append(s.decs, v)
	return v
}

//go:norace
func (s *sched) newTask(role string, parent int) *Task {
	if s.roleCnt == nil {
		s.roleCnt = map[string]int{}
	}
	t := &Task{ID: len(s.tasks), Role: role, Ordinal: s.roleCnt[role], Parent: parent,
		wake: make(chan wakeMsg, 2), st: stNew, op: opStart}
	s.roleCnt[role]++
	// PCT priority: random, distinct with overwhelming probability
	t.prio = int64(s.rnd()>>2) | 1<<61
	s.tasks = append(s.tasks, t)
	s.alive = append(s.alive, t)
	s.live++
	if s.live > s.res.Stats.MaxLive {
		s.res.Stats.MaxLive = s.live
	}
	s.res.Stats.Tasks++
	s.join.Add(1)
	atomic.AddInt64(&s.liveG, 1)
	return t
}

// retire removes an exited task from the list that the scheduler scans
//
//go:norace
//go:norace
func (s *sched) retire(t *Task) {
	for i, o := range s.alive {
		if o == t {
			copy(s.alive[i:], s.alive[i+1:])
			s.alive[len(s.alive)-1] = nil
			s.alive = s.alive[:len(s.alive)-1]
			return
		}
	}
}

func (s *sched) chanOf(c any) *chanState {
	p := chanPtr(c)
	if p == nil {
		return nil
	}
	cs := s.chans[p]
	if cs == nil {
		cs = &chanState{ord: len(s.chans), ref: c, cap: reflect.ValueOf(c).Cap()}
		s.chans[p] = cs
	}
	return cs
}

//go:norace
func (s *sched) chanByPtr(p unsafe.Pointer) *chanState {
	if p == nil {
		return nil
	}
	return s.chans[p]
}

// partners returns the blocked tasks other than t that could complete an
// unbuffered operation on channel p: receivers if wantRecv, else senders.
//
//go:norace
func (s *sched) partners(t *Task, p unsafe.Pointer, wantRecv bool) []*Task {
	s.candB = s.candB[:0]
	for _, o := range s.alive {
		if o == t || o.st != stBlocked {
			continue
		}
		switch o.op {
		case opRecv:
			if wantRecv && o.opCh == p {
				s.candB = append(s.candB, o)
			}
		case opSend:
			if !wantRecv && o.opCh == p {
				s.candB = append(s.candB, o)
			}
		case opSelect:
			for _, c := range o.opCases {
				if c.Send != wantRecv && chanPtr(c.Ch) == p {
					s.candB = append(s.candB, o)
					break
				}
			}
		}
	}
	return s.candB
}

//go:norace
func (s *sched) canSend(t *Task, p unsafe.Pointer) bool {
	cs := s.chanByPtr(p)
	if cs == nil {
		return false
	}
	if cs.closed {
		return true // the real send panics, as in Go
	}
	if cs.cap > 0 {
		return cs.count < cs.cap
	}
	return len(s.partners(t, p, true)) > 0
}

//go:norace
func (s *sched) canRecv(t *Task, p unsafe.Pointer) bool {
	cs := s.chanByPtr(p)
	if cs == nil {
		return false
	}
	if cs.count > 0 || cs.closed {
		return true
	}
	if cs.cap > 0 {
		return false
	}
	return len(s.partners(t, p, false)) > 0
}

//go:norace
func (s *sched) enabled(t *Task) bool {
	switch t.st {
	case stNew, stRunnable:
		return true
	case stSleeping:
		return t.until <= simNow
	case stBlocked:
		switch t.op {
		case opSend:
			return s.canSend(t, t.opCh)
		case opRecv:
			return s.canRecv(t, t.opCh)
		case opSelect:
			if t.opDef {
				return true
			}
			for _, c := range t.opCases {
				p := chanPtr(c.Ch)
				if c.Send && s.canSend(t, p) || !c.Send && s.canRecv(t, p) {
					return true
				}
			}
			return false
		case opWGWait:
			c := s.wgs[t.opPtr]
			return c == nil || *c <= 0
		case opLock:
			h := s.mus[t.opPtr]
			return h == nil || !*h
		case opRWLock:
			w := s.rwOf(t.opPtr)
			return !w.writer && w.readers == 0
		case opRWRLock:
			w := s.rwOf(t.opPtr)
			return !w.writer && w.wwait == 0
		}
	}
	return false
}

func btoi(b bool) int {
	if b {
		return 1
	}
	return 0
}

//go:norace
func (s *sched) rwOf(p unsafe.Pointer) *rwState {
	if s.rws == nil {
		s.rws = map[unsafe.Pointer]*rwState{}
	}
	w := s.rws[p]
	if w == nil {
		w = &rwState{}
		s.rws[p] = w
	}
	return w
}

//go:norace
func (s *sched) wake(t *Task, m wakeMsg) {
	t.wake <- m
}

// Run executes root inside the simulator and returns what happened.
//
//go:norace
func Run(cfg Config, root func()) *Result {
	if active {
		panic("simrt: nested Run")
	}
	if cfg.NumCPU <= 0 {
		cfg.NumCPU = 1
	}
	if cfg.MaxYields <= 0 {
		cfg.MaxYields = 50_000_000
	}
	if cfg.MaxDecs <= 0 {
		cfg.MaxDecs = 5_000_000
	}
	if cfg.MaxTime <= 0 {
		cfg.MaxTime = int64(24 * time.Hour)
	}
	s := &sched{cfg: cfg, req: make(chan request),
		chans: map[unsafe.Pointer]*chanState{}, wgs: map[unsafe.Pointer]*int64{}, mus: map[unsafe.Pointer]*bool{},
		rng: cfg.Seed*0x9e3779b97f4a7c15 + 0x1234567, fp: 0xcbf29ce484222325, res: &Result{}}
	s.res.Stats.Roles = map[string]int{}
	if cfg.Policy == "" {
		s.cfg.Policy = "canonical"
	}
	if s.cfg.Policy == "pct" {
		n := cfg.PCTLen
		if n < 16 {
			n = 16
		}
		for i := 0; i < cfg.PCTDepth; i++ {
			s.pctPts = append(s.pctPts, 1+int64(s.rnd()%uint64(n)))
		}
		// ascending
		for i := 1; i < len(s.pctPts); i++ {
			for j := i; j > 0 && s.pctPts[j] < s.pctPts[j-1]; j-- {
				s.pctPts[j], s.pctPts[j-1] = s.pctPts[j-1], s.pctPts[j]
			}
		}
	}
	sch = s
	simNow = 0
	quantum = 0
	cur = nil
	active = true
	s.root = s.newTask("root", -1)
	go taskMain(s.root, root)

	raceDisable()
	s.loop()
	s.teardown()
	active = false
	quantum = 0
	cur = nil
	raceEnable()
	if s.res.TeardownIncomplete != 0 {
		// goroutines of this run would talk to the scheduler of the next one
		panic(fmt.Sprintf("simrt: teardown incomplete, %d task goroutine(s) could not be ended", s.res.TeardownIncomplete))
	}
	s.join.Wait()
	sch = nil

	r := s.res
	r.Decisions = s.decs
	r.Fingerprint = s.fp
	r.Stats.Yields = s.passed
	r.Stats.SimTime = simNow
	for k, v := range s.roleCnt {
		r.Stats.Roles[k] = v
	}
	return r
}

//go:norace
func (s *sched) end(reason string) {
	s.ended = true
	s.res.End = reason
	for _, t := range s.alive {
		if t.st == stDone {
			continue
		}
		lt := LeftTask{Role: t.Role, Ordinal: t.Ordinal, Op: opNames[t.op], Site: t.opSite}
		if s.res.RootDone {
			lt.YieldsAfterRoot = t.used - t.usedAtRoot
		}
		switch t.st {
		case stBlocked:
			lt.State = "blocked"
		case stSleeping:
			lt.State = "sleeping"
		case stNew:
			lt.State = "new"
		default:
			lt.State = "runnable"
		}
		s.res.Leftover = append(s.res.Leftover, lt)
	}
}

// teardown ends every task that is still alive, one at a time (so that deferred code
// of two dying tasks never runs concurrently): the goroutine parked on the wake channel
// of the task leaves through runtime.Goexit and reports back.
//
// Code that hands control between goroutines behind the simulator's back (runtime
// coroutines: iter.Pull) can leave the goroutine of one task parked under the name of
// another one. Results are final before the teardown starts, so this only matters for
// getting rid of the goroutines: a task that does not confirm in time is left for a
// second pass that wakes every parked goroutine whatever name it waits under.
//
//go:norace
func (s *sched) teardown() {
	for _, t := range append([]*Task(nil), s.alive...) {
		if t.st == stDone {
			continue
		}
		cur = t
		t.wake <- wakeMsg{kind: wkKill}
		s.awaitKilled(t, 200*time.Millisecond)
	}
	deadline := time.Now().Add(10 * time.Second)
	for atomic.LoadInt64(&s.liveG) > 0 {
		if time.Now().After(deadline) {
			s.res.TeardownIncomplete = int(atomic.LoadInt64(&s.liveG))
			return
		}
		for _, t := range s.tasks {
			select {
			case t.wake <- wakeMsg{kind: wkKill}:
			default:
			}
		}
		s.awaitKilled(nil, 2*time.Millisecond)
	}
}

// awaitKilled takes requests until task t has confirmed its end (t == nil: until the
// time is over). A request that asks for something comes from a goroutine that runs
// under a name whose turn is still to come; it stays parked on that wake channel.
//
//go:norace
func (s *sched) awaitKilled(t *Task, d time.Duration) bool {
	var timeout <-chan time.Time
	for {
		select {
		case r := <-s.req:
			switch r.kind {
			case rqKilled, rqExit, rqPanic:
				r.t.st = stDone
				if r.t == t {
					return true
				}
			}
		default:
			if t == nil && atomic.LoadInt64(&s.liveG) == 0 {
				return true
			}
			if timeout == nil {
				timeout = time.After(d)
			}
			select {
			case r := <-s.req:
				switch r.kind {
				case rqKilled, rqExit, rqPanic:
					r.t.st = stDone
					if r.t == t {
						return true
					}
				}
			case <-timeout:
				return false
			}
		}
	}
}

//go:norace
func (s *sched) account(r *request) {
	used := s.given - r.left
	if used < 0 {
		used = 0
	}
	s.passed += used
	if r.t != nil {
		r.t.used += used
	}
	s.given = r.left
	// executing code takes time: without this, tasks that spin through cheap work keep the
	// clock still and starve every task that sleeps in a slow host function
	simNow += used * s.cfg.YieldNs
}

// cont answers a bookkeeping request: same task continues, same quantum.
//
//go:norace
func (s *sched) cont(t *Task, m wakeMsg) {
	m.quantum = s.given
	s.wake(t, m)
}

//go:norace
func (s *sched) loop() {
	// start the root task
	s.dispatch(s.root)
	for !s.ended {
		r := <-s.req
		t := r.t
		s.account(&r)
		switch r.kind {
		case rqGo:
			c := s.newTask(r.site, t.ID)
			s.mix(int64(t.ID), 100, int64(c.ID))
			s.logf("t%d go %s -> t%d", t.ID, r.site, c.ID)
			s.cont(t, wakeMsg{child: c})
			continue
		case rqClose:
			if cs := s.chanOf(r.ch); cs != nil {
				cs.closed = true
				s.mix(int64(t.ID), 101, int64(cs.ord))
				s.logf("t%d close ch%d", t.ID, cs.ord)
			}
			s.cont(t, wakeMsg{})
			continue
		case rqWGAdd:
			c := s.wgs[r.ptr]
			if c == nil {
				c = new(int64)
				s.wgs[r.ptr] = c
			}
			*c += r.n
			s.mix(int64(t.ID), 102, r.n)
			s.cont(t, wakeMsg{})
			continue
		case rqUnlock:
			if h := s.mus[r.ptr]; h != nil {
				*h = false
			}
			s.mix(int64(t.ID), 103)
			s.cont(t, wakeMsg{})
			continue
		case rqTryLock:
			h := s.mus[r.ptr]
			if h == nil {
				h = new(bool)
				s.mus[r.ptr] = h
			}
			got := !*h
			if got {
				*h = true
			}
			s.mix(int64(t.ID), 109, int64(btoi(got)))
			s.cont(t, wakeMsg{ok: got})
			continue
		case rqRWUnlock:
			s.rwOf(r.ptr).writer = false
			s.mix(int64(t.ID), 107)
			s.cont(t, wakeMsg{})
			continue
		case rqRWRUnlock:
			if w := s.rwOf(r.ptr); w.readers > 0 {
				w.readers--
			}
			s.mix(int64(t.ID), 108)
			s.cont(t, wakeMsg{})
			continue
		case rqTimer:
			cs := s.chanOf(r.ch)
			cs.timer = true
			s.tseq++
			heap.Push(&s.tim, timerEnt{at: simNow + r.n, seq: s.tseq, cs: cs, tch: r.tch})
			s.res.Stats.TimersSet++
			s.mix(int64(t.ID), 104, r.n)
			s.cont(t, wakeMsg{})
			continue
		case rqMapOrder:
			s.res.Stats.MapOrders++
			v := s.decide("maporder", 0, func() int64 { return int64(s.rnd()>>34) | 1 })
			s.mix(int64(t.ID), 105, v)
			s.cont(t, wakeMsg{seed: uint64(v)})
			continue
		case rqMark:
			s.mix(int64(t.ID), 106)
			s.logf("t%d mark %s (yields=%d)", t.ID, r.site, s.passed)
			s.cont(t, wakeMsg{seed: uint64(s.passed)})
			continue
		case rqExit:
			t.st = stDone
			t.op = opNone
			s.live--
			s.retire(t)
			s.mix(int64(t.ID), 107)
			s.logf("t%d exit", t.ID)
			if t == s.root {
				s.res.RootDone = true
				s.res.Stats.RootDoneAtY = s.passed
				s.res.Stats.RootDoneAtT = simNow
				s.res.Stats.RootDoneAtD = s.res.Stats.Decisions
				s.res.Stats.LiveAtRootDn = s.live
				for _, o := range s.alive {
					o.usedAtRoot = o.used
				}
			}
		case rqPanic:
			t.st = stDone
			t.op = opNone
			s.live--
			s.retire(t)
			s.res.Panic = &PanicInfo{Role: t.Role, Ordinal: t.Ordinal, Value: r.pv, Stack: r.stack}
			s.res.Stats.PanicOnRole = t.Role
			s.logf("t%d PANIC %s", t.ID, r.pv)
			if t == s.root {
				s.res.RootDone = true
			}
			s.end("panic")
			continue
		case rqYield:
			t.st = stRunnable
			t.op = opYield
			t.opSite = ""
			// why did it come back?
			if s.stallIx < len(s.cfg.Stalls) && s.passed >= s.cfg.Stalls[s.stallIx].At {
				d := s.cfg.Stalls[s.stallIx].Dur
				s.stallIx++
				t.st = stSleeping
				t.op = opSleep
				t.opSite = "stall"
				t.until = simNow + d
				s.tseq++
				heap.Push(&s.tim, timerEnt{at: t.until, seq: s.tseq, t: t})
				s.res.Stats.StallsFired++
				s.mix(int64(t.ID), 108, d)
				s.logf("t%d stalled %dns at yield %d", t.ID, d, s.passed)
			}
			if s.pctIx < len(s.pctPts) && s.passed >= s.pctPts[s.pctIx] {
				s.pctIx++
				s.lowPrio++
				t.prio = s.lowPrio // lower than every initial priority
			}
		case rqSend:
			t.st, t.op, t.opCh, t.opSite = stBlocked, opSend, chanPtr(r.ch), r.site
			s.chanOf(r.ch)
		case rqRecv:
			t.st, t.op, t.opCh, t.opSite = stBlocked, opRecv, chanPtr(r.ch), r.site
			s.chanOf(r.ch)
		case rqSelect:
			t.st, t.op, t.opCases, t.opDef, t.opSite = stBlocked, opSelect, r.cases, r.hasDef, r.site
			for _, c := range r.cases {
				s.chanOf(c.Ch)
			}
		case rqWGWait:
			t.st, t.op, t.opPtr, t.opSite = stBlocked, opWGWait, r.ptr, r.site
		case rqLock:
			t.st, t.op, t.opPtr, t.opSite = stBlocked, opLock, r.ptr, r.site
		case rqRWLock:
			t.st, t.op, t.opPtr, t.opSite = stBlocked, opRWLock, r.ptr, r.site
			s.rwOf(r.ptr).wwait++ // from now on new readers have to wait
		case rqRWRLock:
			t.st, t.op, t.opPtr, t.opSite = stBlocked, opRWRLock, r.ptr, r.site
		case rqSleep:
			t.st, t.op, t.opSite = stSleeping, opSleep, r.site
			t.until = simNow + r.n
			s.tseq++
			heap.Push(&s.tim, timerEnt{at: t.until, seq: s.tseq, t: t})
		default:
			panic(fmt.Sprintf("simrt: unexpected request kind %d", r.kind))
		}
		s.last = t
		s.schedule()
	}
}

//go:norace
func (s *sched) hasWaiter(cs *chanState) bool {
	for _, t := range s.alive {
		if t.st != stBlocked {
			continue
		}
		switch t.op {
		case opRecv:
			if s.chanByPtr(t.opCh) == cs {
				return true
			}
		case opSelect:
			for _, c := range t.opCases {
				if !c.Send && s.chanByPtr(chanPtr(c.Ch)) == cs {
					return true
				}
			}
		}
	}
	return false
}

//go:norace
func (s *sched) fireDue() {
	for s.tim.Len() > 0 && s.tim[0].at <= simNow {
		e := heap.Pop(&s.tim).(timerEnt)
		if e.t != nil {
			continue // sleepers are enabled through their deadline
		}
		if e.cs.count == 0 {
			e.tch <- baseTime.Add(time.Duration(simNow))
			e.cs.count = 1
		}
		s.res.Stats.TimersFired++
	}
}

//go:norace
func (s *sched) schedule() {
	for {
		if s.endRequested != "" {
			s.end("aborted:" + s.endRequested)
			return
		}
		if s.passed >= s.cfg.MaxYields {
			s.end("yield-budget")
			return
		}
		if s.res.Stats.Decisions >= s.cfg.MaxDecs {
			s.end("decision-budget")
			return
		}
		if simNow > s.cfg.MaxTime {
			s.end("time-budget")
			return
		}
		if s.res.RootDone {
			if s.cfg.GraceYields > 0 && s.passed-s.res.Stats.RootDoneAtY > s.cfg.GraceYields {
				s.end("grace-yields")
				return
			}
			if s.cfg.GraceDecs > 0 && s.res.Stats.Decisions-s.res.Stats.RootDoneAtD > s.cfg.GraceDecs {
				s.end("grace-decisions")
				return
			}
			if s.cfg.GraceTime > 0 && simNow-s.res.Stats.RootDoneAtT > s.cfg.GraceTime {
				s.end("grace-time")
				return
			}
		}
		s.fireDue()
		en := s.enabledB[:0]
		if s.last != nil && s.last.st != stDone && s.enabled(s.last) {
			en = append(en, s.last)
		}
		for _, t := range s.alive {
			if t != s.last && t.st != stDone && t.st != stRunning && s.enabled(t) {
				en = append(en, t)
			}
		}
		s.enabledB = en
		if len(en) == 0 {
			if s.live > 0 && s.tim.Len() > 0 {
				if s.tim[0].at > simNow {
					// a timer nobody waits on cannot change anything while every
					// task is blocked: fire it without moving the clock
					if e := s.tim[0]; e.t == nil && !s.hasWaiter(e.cs) {
						heap.Pop(&s.tim)
						if e.cs.count == 0 {
							e.tch <- baseTime.Add(time.Duration(e.at))
							e.cs.count = 1
						}
						s.res.Stats.TimersOrphan++
						continue
					}
					simNow = s.tim[0].at
					s.res.Stats.ClockJumps++
				}
				continue
			}
			switch {
			case s.live == 0:
				s.end("complete")
			case !s.res.RootDone:
				s.end("deadlock")
			default:
				s.end("quiescent")
			}
			return
		}
		idx := 0
		if len(en) > 1 {
			s.res.Stats.PickMulti++
			idx = int(s.decide("pick", int64(len(en)), func() int64 {
				if s.cfg.Policy == "pct" {
					best := 0
					for i, t := range en {
						if t.prio > en[best].prio {
							best = i
						}
					}
					return int64(best)
				}
				return int64(s.rnd() % uint64(len(en)))
			}))
		}
		s.dispatch(en[idx])
		return
	}
}

//go:norace
func (s *sched) quantumFor() int64 {
	// The recorded decision is the *effective* quantum: a PCT priority change point is a
	// point at which the task must come back to the scheduler, i.e. part of the schedule.
	// (Recording only the policy's raw value made replays of PCT runs drift.)
	q := s.decide("quantum", 0, func() int64 {
		var q int64
		if s.cfg.Policy == "random" {
			if p := s.cfg.PreemptP; p > 0 {
				u := (float64(s.rnd()>>11) + 0.5) / (1 << 53)
				q = 1 + int64(math.Log(u)/math.Log(1-p))
			}
		}
		if s.pctIx < len(s.pctPts) {
			d := s.pctPts[s.pctIx] - s.passed
			if d < 1 {
				d = 1
			}
			if q <= 0 || d < q {
				q = d
			}
		}
		return q
	})
	if q > 0 {
		s.res.Stats.Preemptions++
	}
	if q <= 0 || q > inf {
		q = inf
	}
	if rem := s.cfg.MaxYields - s.passed; q > rem {
		q = rem
	}
	if s.stallIx < len(s.cfg.Stalls) {
		if d := s.cfg.Stalls[s.stallIx].At - s.passed; d < q {
			q = d
		}
	}
	if s.res.RootDone && s.cfg.GraceYields > 0 {
		if d := s.cfg.GraceYields - (s.passed - s.res.Stats.RootDoneAtY) + 1; d < q {
			q = d
		}
	}
	if q < 0 {
		q = 0
	}
	return q
}

// dispatch hands the baton to t, completing its pending operation.
//
//go:norace
func (s *sched) dispatch(t *Task) {
	s.res.Stats.Decisions++
	if cur != t {
		s.res.Stats.Switches++
	}
	sel := 0
	switch t.op {
	case opSelect:
		// which enabled clause?
		var idxs []int
		for i, c := range t.opCases {
			p := chanPtr(c.Ch)
			if c.Send && s.canSend(t, p) || !c.Send && s.canRecv(t, p) {
				idxs = append(idxs, i)
			}
		}
		if len(idxs) == 0 {
			sel = -1 // default
			s.mix(int64(t.ID), 1, -1)
			s.logf("t%d select default", t.ID)
			break
		}
		k := 0
		if len(idxs) > 1 {
			s.res.Stats.SelectMulti++
			k = int(s.decide("case", int64(len(idxs)), func() int64 { return int64(s.rnd() % uint64(len(idxs))) }))
		}
		sel = idxs[k]
		c := t.opCases[sel]
		if s.chanOp(t, chanPtr(c.Ch), c.Send, sel) {
			return
		}
	case opSend:
		if s.chanOp(t, t.opCh, true, 0) {
			return
		}
	case opRecv:
		if s.chanOp(t, t.opCh, false, 0) {
			return
		}
	case opLock:
		h := s.mus[t.opPtr]
		if h == nil {
			h = new(bool)
			s.mus[t.opPtr] = h
		}
		*h = true
		s.mix(int64(t.ID), 2)
	case opRWLock:
		w := s.rwOf(t.opPtr)
		w.wwait--
		w.writer = true
		s.mix(int64(t.ID), 5)
	case opRWRLock:
		s.rwOf(t.opPtr).readers++
		s.mix(int64(t.ID), 6)
	default:
		s.mix(int64(t.ID), 3, int64(t.op))
	}
	s.run(t, sel)
}

//go:norace
func (s *sched) run(t *Task, sel int) {
	t.st = stRunning
	t.op = opNone
	t.opCases = nil
	cur = t
	s.given = s.quantumFor()
	s.wake(t, wakeMsg{sel: sel, quantum: s.given})
}

// chanOp completes a channel operation of t on channel p. It returns true if
// it already handed out the baton (rendezvous where the partner continues).
//
//go:norace
func (s *sched) chanOp(t *Task, p unsafe.Pointer, send bool, sel int) bool {
	cs := s.chanByPtr(p)
	dir := int64(10)
	if send {
		dir = 11
	}
	s.mix(int64(t.ID), dir, int64(cs.ord), int64(sel))
	if send {
		if cs.closed {
			s.logf("t%d send on closed ch%d", t.ID, cs.ord)
			return false
		}
		if cs.cap > 0 {
			cs.count++
			s.logf("t%d send ch%d (buffered)", t.ID, cs.ord)
			return false
		}
	} else {
		if cs.count > 0 {
			cs.count--
			s.logf("t%d recv ch%d (buffered)", t.ID, cs.ord)
			return false
		}
		if cs.closed {
			s.logf("t%d recv ch%d (closed)", t.ID, cs.ord)
			return false
		}
	}
	// unbuffered rendezvous
	cands := s.partners(t, p, send)
	k := 0
	if len(cands) > 1 {
		k = int(s.decide("partner", int64(len(cands)), func() int64 { return int64(s.rnd() % uint64(len(cands))) }))
	}
	o := cands[k]
	osel := 0
	if o.op == opSelect {
		for i, c := range o.opCases {
			if c.Send != send && chanPtr(c.Ch) == p {
				osel = i
				break
			}
		}
	}
	s.res.Stats.Rendezvous++
	s.mix(int64(o.ID), 12, int64(osel))
	s.logf("t%d %s ch%d <-> t%d", t.ID, map[bool]string{true: "send", false: "recv"}[send], cs.ord, o.ID)
	act := s.decide("active", 2, func() int64 {
		if s.cfg.Policy == "pct" {
			if o.prio > t.prio {
				return 1
			}
			return 0
		}
		return int64(s.rnd() & 1)
	})
	a, pa, asel, psel := t, o, sel, osel
	if act == 1 {
		a, pa, asel, psel = o, t, osel, sel
	}
	pa.st = stRunnable
	pa.op = opResume
	pa.opCases = nil
	s.wake(pa, wakeMsg{passive: true, sel: psel})
	s.run(a, asel)
	return true
}
