// Package simrt is the run-time half of the deterministic simulator: the
// rewritten copies of parser2 / iterator call into it at every concurrency
// relevant point (go, channel ops, select, close, WaitGroup, Mutex, time,
// NumCPU, map ranges, yields). With the simulator off every call passes
// straight through to the real operation.
//
// Race-detector discipline (see DESIGN.md 3.4): every function executed by a
// task goroutine on behalf of the simulator is //go:norace, and the baton
// hand-off (request send + wake receive) is bracketed by
// runtime.RaceDisable/RaceEnable so that the detector's happens-before
// relation contains only the program's own edges.
package simrt

import (
	"cmp"
	"reflect"
	"runtime"
	"slices"
	"sync"
	"sync/atomic"
	"time"
	"unsafe"
)

var (
	active  bool   // simulator on
	cur     *Task  // baton holder
	quantum int64  // yields the baton holder may still pass without asking
	simNow  int64  // simulated nanoseconds since baseTime
	sch     *sched // current run
)

var baseTime = time.Date(2030, 1, 1, 0, 0, 0, 0, time.UTC)

// Active reports whether a simulated run is in progress.
//
//go:norace
func Active() bool { return active }

type wakeKind uint8

const (
	wkRun wakeKind = iota
	wkKill
)

type wakeMsg struct {
	kind    wakeKind
	passive bool
	sel     int
	quantum int64
	child   *Task
	seed    uint64
	ok      bool
}

// Task is one simulated goroutine.
type Task struct {
	ID      int
	Role    string // site of the go statement that created it ("root" for the root task)
	Ordinal int    // n-th task of this role in the run
	Parent  int

	wake    chan wakeMsg
	passive bool
	killed  bool

	// scheduler-owned
	st         taskState
	op         opKind
	opCh       unsafe.Pointer
	opCases    []SelCase
	opDef      bool
	opPtr      unsafe.Pointer
	opSite     string
	until      int64
	prio       int64
	selIdx     int
	isClient   bool
	used       int64
	usedAtRoot int64
}

type reqKind uint8

const (
	rqYield reqKind = iota
	rqGo
	rqSend
	rqRecv
	rqSelect
	rqClose
	rqWGAdd
	rqWGWait
	rqLock
	rqUnlock
	rqTimer
	rqSleep
	rqMapOrder
	rqExit
	rqPanic
	rqKilled
	rqMark
	rqRWLock
	rqRWUnlock
	rqRWRLock
	rqRWRUnlock
	rqTryLock
)

type request struct {
	t      *Task
	kind   reqKind
	ch     any
	cases  []SelCase
	hasDef bool
	ptr    unsafe.Pointer
	n      int64
	left   int64
	site   string
	pv     string
	stack  string
	tch    chan time.Time
}

// SelCase describes one communication clause of a select statement.
type SelCase struct {
	Send bool
	Ch   any
}

//go:norace
func chanPtr(c any) unsafe.Pointer {
	return (*[2]unsafe.Pointer)(unsafe.Pointer(&c))[1]
}

// ask hands the baton to the scheduler and blocks until this task is woken
// again. It never returns for a task that is being torn down.
//
//go:norace
func (t *Task) ask(r request) wakeMsg {
	r.t = t
	r.left = quantum
	raceDisable()
	sch.req <- r
	m := <-t.wake
	raceEnable()
	if m.kind == wkKill {
		t.killed = true
		runtime.Goexit()
	}
	if m.passive {
		t.passive = true
	} else {
		quantum = m.quantum
	}
	return m
}

// tell sends a request without waiting for an answer (task exit paths).
//
//go:norace
func (t *Task) tell(r request) {
	r.t = t
	r.left = quantum
	raceDisable()
	sch.req <- r
	raceEnable()
}

//go:norace
func (t *Task) park() {
	raceDisable()
	m := <-t.wake
	raceEnable()
	if m.kind == wkKill {
		t.killed = true
		runtime.Goexit()
	}
	quantum = m.quantum
}

//go:norace
func taskMain(t *Task, fn func()) {
	defer t.finish()
	t.park()
	fn()
}

//go:norace
func (t *Task) finish() {
	if t.killed {
		t.tell(request{kind: rqKilled})
		atomic.AddInt64(&sch.liveG, -1)
		sch.join.Done()
		return
	}
	if r := recover(); r != nil {
		t.tell(request{kind: rqPanic, pv: panicString(r), stack: string(stackTrace())})
	} else {
		t.tell(request{kind: rqExit})
	}
	atomic.AddInt64(&sch.liveG, -1)
	sch.join.Done()
}

// Yield is a preemption point. Fast path: one decrement.
//
//go:norace
func Yield() {
	if quantum > 0 {
		quantum--
		return
	}
	if !active {
		return
	}
	yieldSlow()
}

//go:norace
func yieldHot() {
	if !active {
		return
	}
	if t := cur; !t.killed {
		t.ask(request{kind: rqYield})
	}
}

//go:norace
func yieldSlow() {
	t := cur
	if t.killed {
		return
	}
	t.ask(request{kind: rqYield})
}

// Go replaces a go statement.
//
//go:norace
func Go(site string, fn func()) {
	if !active {
		go fn()
		return
	}
	t := cur
	if t.killed {
		return
	}
	m := t.ask(request{kind: rqGo, site: site})
	go taskMain(m.child, fn)
}

// Send gates a channel send; the real send follows, then Done(tok).
//
//go:norace
func Send(c any, site string) *Task {
	if !active {
		return nil
	}
	t := cur
	if t.killed {
		runtime.Goexit()
	}
	t.ask(request{kind: rqSend, ch: c, site: site})
	return t
}

// Recv gates a channel receive.
//
//go:norace
func Recv(c any, site string) *Task {
	if !active {
		return nil
	}
	t := cur
	if t.killed {
		runtime.Goexit()
	}
	t.ask(request{kind: rqRecv, ch: c, site: site})
	return t
}

// Done follows the real channel operation. The passive party of an
// unbuffered rendezvous parks here until it is scheduled again.
//
//go:norace
func Done(t *Task) {
	if t == nil {
		return
	}
	if t.passive {
		t.passive = false
		t.park()
	}
}

// Select gates a select statement: it returns the index of the one clause
// whose real operation the caller must now perform (-1 = default).
//
//go:norace
func Select(site string, hasDefault bool, cases ...SelCase) (int, *Task) {
	t := cur
	if t.killed {
		runtime.Goexit()
	}
	m := t.ask(request{kind: rqSelect, cases: cases, hasDef: hasDefault, site: site})
	return m.sel, t
}

// Close replaces close(c) (also in deferred position).
//
//go:norace
func Close(c any) {
	if active {
		t := cur
		if t.killed {
			return
		}
		t.ask(request{kind: rqClose, ch: c})
	}
	reflect.ValueOf(c).Close()
}

// WaitGroup wraps sync.WaitGroup; the real primitive is still used so that
// the program's happens-before edges exist for the race detector.
type WaitGroup struct {
	wg sync.WaitGroup
}

//go:norace
func (w *WaitGroup) Add(n int) {
	if active {
		t := cur
		if t.killed {
			return
		}
		t.ask(request{kind: rqWGAdd, ptr: unsafe.Pointer(w), n: int64(n)})
	}
	w.wg.Add(n)
}

//go:norace
func (w *WaitGroup) Done() {
	w.Add(-1)
}

//go:norace
func (w *WaitGroup) Wait() {
	if active {
		t := cur
		if t.killed {
			runtime.Goexit()
		}
		t.ask(request{kind: rqWGWait, ptr: unsafe.Pointer(w), site: "WaitGroup.Wait"})
	}
	w.wg.Wait()
}

// Go is the WaitGroup.Go convenience of newer Go versions.
func (w *WaitGroup) Go(f func()) {
	w.Add(1)
	Go("WaitGroup.Go", func() {
		defer w.Done()
		f()
	})
}

// Mutex wraps sync.Mutex.
type Mutex struct {
	mu sync.Mutex
}

//go:norace
func (m *Mutex) Lock() {
	if active {
		t := cur
		if t.killed {
			runtime.Goexit()
		}
		t.ask(request{kind: rqLock, ptr: unsafe.Pointer(m), site: "Mutex.Lock"})
		m.mu.Lock()
		// The holder of a lock can be descheduled like anybody else: others then run into the held lock.
		// Critical sections are short and contain no yield point of their own, so this one always goes to
		// the scheduler, whatever is left of the quantum (under the canonical policy the holder just goes on).
		yieldHot()
		return
	}
	m.mu.Lock()
}

//go:norace
func (m *Mutex) Unlock() {
	if active {
		t := cur
		if t.killed {
			return
		}
		t.ask(request{kind: rqUnlock, ptr: unsafe.Pointer(m)})
	}
	m.mu.Unlock()
}

// RWMutex wraps sync.RWMutex. The model follows the documented behaviour that matters for
// deadlocks: a Lock call that is waiting excludes new readers (so recursive read locking can block
// for ever once a writer has arrived).
type RWMutex struct {
	mu sync.RWMutex
}

//go:norace
func (m *RWMutex) Lock() {
	if active {
		t := cur
		if t.killed {
			runtime.Goexit()
		}
		t.ask(request{kind: rqRWLock, ptr: unsafe.Pointer(m), site: "RWMutex.Lock"})
	}
	m.mu.Lock()
}

//go:norace
func (m *RWMutex) Unlock() {
	if active {
		t := cur
		if t.killed {
			return
		}
		t.ask(request{kind: rqRWUnlock, ptr: unsafe.Pointer(m)})
	}
	m.mu.Unlock()
}

//go:norace
func (m *RWMutex) RLock() {
	if active {
		t := cur
		if t.killed {
			runtime.Goexit()
		}
		t.ask(request{kind: rqRWRLock, ptr: unsafe.Pointer(m), site: "RWMutex.RLock"})
	}
	m.mu.RLock()
}

//go:norace
func (m *RWMutex) RUnlock() {
	if active {
		t := cur
		if t.killed {
			return
		}
		t.ask(request{kind: rqRWRUnlock, ptr: unsafe.Pointer(m)})
	}
	m.mu.RUnlock()
}

// TryLock never waits: it takes the lock if nobody holds it at this moment.
//
//go:norace
func (m *Mutex) TryLock() bool {
	if active {
		t := cur
		if t.killed {
			runtime.Goexit()
		}
		Yield()
		if !t.ask(request{kind: rqTryLock, ptr: unsafe.Pointer(m)}).ok {
			return false
		}
		if !m.mu.TryLock() {
			panic("simrt: the mirror of a mutex says free, the mutex is held")
		}
		return true
	}
	return m.mu.TryLock()
}

// Pool replaces sync.Pool with a deterministic model: a LIFO free list (returning the most
// recently put object, or New(), is one of the behaviours sync.Pool allows; dropping objects
// at a garbage collection is not modelled). The free list is guarded by a real mutex, so the
// race detector sees a happens-before edge from every Put to every later Get - slightly more
// than the real pool guarantees (it orders only the Put and the Get of the same object).
type Pool struct {
	New   func() any
	mu    sync.Mutex
	items []any
}

func (p *Pool) Get() any {
	p.mu.Lock()
	var x any
	if n := len(p.items); n > 0 {
		x = p.items[n-1]
		p.items[n-1] = nil
		p.items = p.items[:n-1]
	}
	p.mu.Unlock()
	if x == nil && p.New != nil {
		x = p.New()
	}
	return x
}

func (p *Pool) Put(x any) {
	if x == nil {
		return
	}
	p.mu.Lock()
	p.items = append(p.items, x)
	p.mu.Unlock()
}

// Now replaces time.Now.
//
//go:norace
func Now() time.Time {
	if !active {
		return time.Now()
	}
	return baseTime.Add(time.Duration(simNow))
}

// Since replaces time.Since.
func Since(t time.Time) time.Duration { return Now().Sub(t) }

// After replaces time.After.
//
//go:norace
func After(d time.Duration) <-chan time.Time {
	if !active {
		return time.After(d)
	}
	ch := make(chan time.Time, 1)
	t := cur
	if t.killed {
		return ch
	}
	t.ask(request{kind: rqTimer, ch: ch, tch: ch, n: int64(d)})
	return ch
}

// Sleep replaces time.Sleep; simulated time passes for the caller only.
//
//go:norace
func Sleep(d time.Duration) {
	if !active {
		time.Sleep(d)
		return
	}
	t := cur
	if t.killed {
		return
	}
	if d < 0 {
		d = 0
	}
	t.ask(request{kind: rqSleep, n: int64(d), site: "Sleep"})
}

// Work charges d of simulated time to the calling task (host cost function).
//
//go:norace
func Work(d time.Duration) {
	if !active || d <= 0 {
		return
	}
	Sleep(d)
}

// NumCPU replaces runtime.NumCPU.
//
//go:norace
func NumCPU() int {
	if !active {
		return runtime.NumCPU()
	}
	return sch.cfg.NumCPU
}

// GOMAXPROCS replaces runtime.GOMAXPROCS: a per-run configuration value that is
// independent of NumCPU. It has no influence on the explored interleavings (a single
// P still interleaves goroutines at every blocking point and preemption).
//
//go:norace
func GOMAXPROCS(n int) int {
	if !active {
		return runtime.GOMAXPROCS(n)
	}
	prev := sch.cfg.GoMaxProcs
	if prev <= 0 {
		prev = sch.cfg.NumCPU
	}
	if n > 0 {
		sch.cfg.GoMaxProcs = n
	}
	return prev
}

//go:norace
func mapOrderSeed(n int) uint64 {
	if !active || n < 2 {
		return 0
	}
	t := cur
	if t.killed {
		return 0
	}
	m := t.ask(request{kind: rqMapOrder, n: int64(n)})
	return m.seed
}

// MapOrder returns the keys of m in the order the simulator chose for this
// iteration: sorted, then permuted from the run's decision stream (sorted
// when the simulator is off). Go leaves map iteration order unspecified, so
// any order is a legal execution.
func MapOrder[M ~map[K]V, K cmp.Ordered, V any](m M) []K {
	keys := make([]K, 0, len(m))
	for k := range m {
		keys = append(keys, k)
	}
	slices.Sort(keys)
	if s := mapOrderSeed(len(keys)); s != 0 {
		for i := len(keys) - 1; i > 0; i-- {
			s = splitmix(s)
			j := int(s % uint64(i+1))
			keys[i], keys[j] = keys[j], keys[i]
		}
	}
	return keys
}

// RequestEnd asks the scheduler to end the run at the caller's next scheduling point
// (used by the harness once a verdict is already decided, e.g. demand far beyond its bound).
//
//go:norace
func RequestEnd(reason string) {
	if !active || sch == nil {
		return
	}
	if sch.endRequested == "" {
		sch.endRequested = reason
	}
	quantum = 0
}

// Current returns the baton holder (nil when the simulator is off).
//
//go:norace
func Current() *Task {
	if !active {
		return nil
	}
	return cur
}

// SimNow returns simulated nanoseconds since the start of the run.
//
//go:norace
func SimNow() int64 { return simNow }

// Mark records a harness event in the run's event log and returns the global
// number of yields passed so far (bookkeeping request, not a scheduling point).
//
//go:norace
func Mark(tag string) int64 {
	if !active {
		return 0
	}
	t := cur
	if t.killed {
		return 0
	}
	m := t.ask(request{kind: rqMark, site: tag})
	return int64(m.seed)
}

//go:norace
func splitmix(x uint64) uint64 {
	x += 0x9e3779b97f4a7c15
	z := x
	z = (z ^ (z >> 30)) * 0xbf58476d1ce4e5b9
	z = (z ^ (z >> 27)) * 0x94d049bb133111eb
	return z ^ (z >> 31)
}

// ZeroR / ZeroS give the rewriter a typed temporary of a channel's element type.
func ZeroR[T any](c <-chan T) (z T) { return }
func ZeroS[T any](c chan<- T) (z T) { return }
