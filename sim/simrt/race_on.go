//go:build race

package simrt

import "runtime"

// RaceBuild reports whether the binary carries the race detector.
const RaceBuild = true

//go:norace
func raceDisable() { runtime.RaceDisable() }

//go:norace
func raceEnable() { runtime.RaceEnable() }

// RaceErrors returns the number of race reports so far in this process.
func RaceErrors() int { return runtime.RaceErrors() }
