module verif.local/simrt

go 1.25.0
