#!/bin/bash
# usage: multi_seed.sh [tier] seed...   -- all checks on the current tree with several seeds ("-" = the default seed); evidence restored afterwards
TIER=$1; shift
cd /verif
for s in "$@"; do
  for p in C04 C05 C06 C08 C09 C10 C11 C12; do
    if [ "$s" = "-" ]; then ./check $p $TIER > /tmp/ms.$p.$s.out 2>&1; else VERIF_SEED=$s ./check $p $TIER > /tmp/ms.$p.$s.out 2>&1; fi
    echo "seed=$s $p exit=$? viol=$(grep -c '^VIOLATION' /tmp/ms.$p.$s.out) known=$(grep -c '^KNOWN' /tmp/ms.$p.$s.out) $(grep -m1 'signature:' /tmp/ms.$p.$s.out)"
  done
done
git -C /verif checkout -- evidence 2>/dev/null
