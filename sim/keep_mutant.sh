#!/bin/bash
# usage: keep_mutant.sh <workid> <seeded-id> <property> "<needs>" "<caught-by>"
W=$1; ID=$2; PROP=$3; NEEDS=$4; CAUGHT=$5
D=/verif/seeded/$ID; mkdir -p $D/demo
cp /tmp/mut/$W-demo/patch.diff $D/patch.diff
for f in /tmp/mut/$W-demo/*.go /tmp/mut/$W-demo/go.mod /tmp/mut/$W-demo/go.sum /tmp/mut/$W-demo/NOTES.md; do [ -f "$f" ] && cp "$f" $D/demo/; done
# the demo modules point at the agent's scratch worktree; note it
python3 - "$D" "$PROP" "$NEEDS" "$CAUGHT" "$W" <<'PY'
import json,sys,subprocess
d,prop,needs,caught,w=sys.argv[1:6]
meta=dict(breaks_property=prop, needs_to_manifest=needs,
  written_by='independent sub-agent given only the property text and a scratch worktree of /repo (no access to /verif)',
  confirmed=dict(how='sim/confirm_mutant.sh %s: go build + complete test suite pass with the change; the demonstration fails with the change and passes after git apply -R'%w, result='confirmed'),
  checks_run='sim/try_mutant.sh seeded/%s/patch.diff %s  (git -C /repo apply; ./check %s quick; git -C /repo checkout -- .)'%(d.split('/')[-1],prop,prop),
  detected=caught, base_commit=subprocess.run(['git','-C','/repo','log','--format=%h','-1'],capture_output=True,text=True).stdout.strip(),
  demo_note='demo/go.mod replaces github.com/hneemann/parser2 with the scratch worktree the agent used (/tmp/mut/%s); point it at a tree with patch.diff applied to re-run'%w)
json.dump(meta,open(d+'/meta.json','w'),indent=1)
PY
ls $D $D/demo | tr '\n' ' '; echo
