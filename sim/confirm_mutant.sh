#!/bin/bash
# usage: confirm_mutant.sh <id>   -- worktree /tmp/mut/<id> with the change applied, demo in /tmp/mut/<id>-demo
# confirms: suite passes with the change; demo fails with it and passes without it
ID=$1; W=/tmp/mut/$ID; D=/tmp/mut/$ID-demo
export GOFLAGS=-mod=mod GOPROXY=off
cd $W || exit 2
git diff --stat | tail -3
echo "--- suite with change"; go build ./... && go test -vet=off -count=1 ./... 2>&1 | grep -v "no test files" | awk '{print $1,$2}' | tr '\n' ';'; echo
cd $D; 
if ls *_test.go >/dev/null 2>&1; then CMD="go test -count=1 ${RACE} -timeout 300s ./..."; else CMD="go run ${RACE} ."; fi
echo "--- demo with change: $CMD"; timeout 400 $CMD > /tmp/demo.with 2>&1; echo "exit=$?"; tail -3 /tmp/demo.with | cut -c1-200
cd $W; git diff > /tmp/confirm.$ID.diff; git apply -R /tmp/confirm.$ID.diff; cd $D
echo "--- demo without change"; timeout 400 $CMD > /tmp/demo.without 2>&1; echo "exit=$?"; tail -3 /tmp/demo.without | cut -c1-200
cd $W; git apply /tmp/confirm.$ID.diff; git status --short | head -3
