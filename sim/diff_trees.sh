#!/bin/bash
# usage: diff_trees.sh <treeA> <treeB> [n] [props...]
# Functional regression net for repairs made in /repo: the same generated cases are run on two versions of
# the library (canonical schedule of every case) and the outcomes of all operations are compared. Differences
# are expected exactly where the older tree misbehaved (errors instead of panics, repaired values); anything
# else means the repair changed behaviour it should not have touched.
A=$1; B=$2; N=${3:-3000}; shift 3
PROPS=${@:-C06 C10 C09 C05 C12}
export VERIF_OUTDUMP=1
VERIF_REPO=$A /verif/sim/prepare.sh /tmp/dtA >/dev/null 2>&1 || { echo "build of $A failed"; exit 2; }
VERIF_REPO=$B /verif/sim/prepare.sh /tmp/dtB >/dev/null 2>&1 || { echo "build of $B failed"; exit 2; }
for p in $PROPS; do
  for t in A B; do
    ( cd /tmp/dt$t/worker; for k in 0 1 2 3 4 5 6 7; do ( ./worker run -prop $p -seed 4242 -from $((k*N/8)) -to $(((k+1)*N/8)) -fplog 2>/dev/null | grep '^{"t":"fp"' > /tmp/dt$t.$p.$k ) & done; wait; cat /tmp/dt$t.$p.? > /tmp/dt$t.$p.all; rm -f /tmp/dt$t.$p.? )
  done
  python3 - $p <<'PY'
import json,sys
p=sys.argv[1]
def load(f):
    d={}
    for l in open(f):
        try: x=json.loads(l)
        except Exception: continue
        d[x['id']]=x.get('out','')
    return d
a=load('/tmp/dtA.%s.all'%p); b=load('/tmp/dtB.%s.all'%p)
common=set(a)&set(b)
diff=sorted(k for k in common if a[k]!=b[k])
print('%s: %d cases compared, %d only in A, %d only in B, %d differ'%(p,len(common),len(set(a)-set(b)),len(set(b)-set(a)),len(diff)))
for k in diff[:12]: print('   ',k,'|',a[k],'|',b[k])
PY
done
rm -rf /tmp/dtA /tmp/dtB /tmp/dtA.* /tmp/dtB.*
