// simrewrite instruments scratch copies of parser2 and iterator for the
// deterministic simulator (DESIGN.md 3.1). It never touches /repo: it is given
// the directory of a *copy* and rewrites the files of the selected packages in
// place. Anything concurrent it does not model makes it exit 2 with the
// source position.
package main

import (
	"bytes"
	"encoding/json"
	"flag"
	"fmt"
	"go/ast"
	"go/printer"
	"go/token"
	"go/types"
	"os"
	"path/filepath"
	"sort"
	"strings"

	"golang.org/x/tools/go/ast/astutil"
	"golang.org/x/tools/go/packages"
)

const simrtPath = "verif.local/simrt"

type report struct {
	Files        int            `json:"files"`
	Counts       map[string]int `json:"counts"`
	UnorderedMap []string       `json:"unordered_map_ranges"` // enclosing functions of map ranges left to the runtime
	Errors       []string       `json:"errors"`
}

var rep = report{Counts: map[string]int{}}

func main() {
	dir := flag.String("dir", "", "directory of the module copy to load from")
	pkgList := flag.String("pkgs", "", "comma separated import paths to rewrite")
	flag.Parse()
	want := map[string]bool{}
	for _, p := range strings.Split(*pkgList, ",") {
		if p != "" {
			want[p] = true
		}
	}
	cfg := &packages.Config{
		Mode: packages.NeedName | packages.NeedTypes | packages.NeedSyntax | packages.NeedTypesInfo |
			packages.NeedFiles | packages.NeedCompiledGoFiles | packages.NeedImports,
		Dir: *dir,
	}
	var patterns []string
	for p := range want {
		patterns = append(patterns, p)
	}
	sort.Strings(patterns)
	pkgs, err := packages.Load(cfg, patterns...)
	if err != nil {
		fmt.Fprintln(os.Stderr, "simrewrite: load:", err)
		os.Exit(2)
	}
	seen := map[string]bool{}
	for _, p := range pkgs {
		if len(p.Errors) > 0 {
			for _, e := range p.Errors {
				fmt.Fprintln(os.Stderr, "simrewrite: package error:", e)
			}
			os.Exit(2)
		}
		if !want[p.PkgPath] {
			continue
		}
		seen[p.PkgPath] = true
		if len(p.Syntax) != len(p.CompiledGoFiles) {
			fmt.Fprintln(os.Stderr, "simrewrite: syntax/files mismatch in", p.PkgPath)
			os.Exit(2)
		}
		for i, f := range p.Syntax {
			name := p.CompiledGoFiles[i]
			if !strings.HasSuffix(name, ".go") || strings.HasSuffix(name, "_test.go") {
				continue
			}
			rw := &rewriter{fset: p.Fset, info: p.TypesInfo, pkg: p.Types, file: f, fname: name}
			src, err := rw.run()
			if err != nil {
				fmt.Fprintln(os.Stderr, "simrewrite:", err)
				os.Exit(2)
			}
			if len(rw.errs) > 0 {
				rep.Errors = append(rep.Errors, rw.errs...)
				continue
			}
			if err := os.WriteFile(name, src, 0o644); err != nil {
				fmt.Fprintln(os.Stderr, "simrewrite:", err)
				os.Exit(2)
			}
			rep.Files++
		}
	}
	for p := range want {
		if !seen[p] {
			rep.Errors = append(rep.Errors, "package not loaded: "+p)
		}
	}
	sort.Strings(rep.UnorderedMap)
	out, _ := json.MarshalIndent(rep, "", " ")
	fmt.Println(string(out))
	if len(rep.Errors) > 0 {
		for _, e := range rep.Errors {
			fmt.Fprintln(os.Stderr, "simrewrite: unsupported:", e)
		}
		os.Exit(2)
	}
}

type rewriter struct {
	fset  *token.FileSet
	info  *types.Info
	pkg   *types.Package
	file  *ast.File
	fname string
	n     int
	errs  []string
	fn    string // enclosing top-level function (for sites)
	goN   int
	used  bool
}

func (rw *rewriter) errorf(pos token.Pos, format string, a ...any) {
	rw.errs = append(rw.errs, fmt.Sprintf("%s: %s", rw.fset.Position(pos), fmt.Sprintf(format, a...)))
}

func (rw *rewriter) uniq(kind string) string {
	rw.n++
	return fmt.Sprintf("_sim%s%d", kind, rw.n)
}

func ident(n string) *ast.Ident { return ast.NewIdent(n) }

func (rw *rewriter) rt(name string) ast.Expr {
	rw.used = true
	return &ast.SelectorExpr{X: ident("simrt"), Sel: ident(name)}
}

func call(fun ast.Expr, args ...ast.Expr) *ast.CallExpr { return &ast.CallExpr{Fun: fun, Args: args} }

func strLit(s string) ast.Expr {
	return &ast.BasicLit{Kind: token.STRING, Value: fmt.Sprintf("%q", s)}
}

func define(lhs string, rhs ast.Expr) ast.Stmt {
	return &ast.AssignStmt{Lhs: []ast.Expr{ident(lhs)}, Tok: token.DEFINE, Rhs: []ast.Expr{rhs}}
}

func (rw *rewriter) yieldStmt() ast.Stmt {
	rep.Counts["yield"]++
	return &ast.ExprStmt{X: call(rw.rt("Yield"))}
}

func (rw *rewriter) site(pos token.Pos) ast.Expr {
	p := rw.fset.Position(pos)
	return strLit(fmt.Sprintf("%s:%d", filepath.Base(p.Filename), p.Line))
}

func (rw *rewriter) pkgOf(id *ast.Ident) string {
	if o, ok := rw.info.Uses[id].(*types.PkgName); ok {
		return o.Imported().Path()
	}
	return ""
}

func funcDeclName(pkg string, d *ast.FuncDecl) string {
	name := d.Name.Name
	if d.Recv != nil && len(d.Recv.List) > 0 {
		t := d.Recv.List[0].Type
		for {
			switch x := t.(type) {
			case *ast.StarExpr:
				t = x.X
				continue
			case *ast.IndexExpr:
				t = x.X
				continue
			case *ast.IndexListExpr:
				t = x.X
				continue
			case *ast.ParenExpr:
				t = x.X
				continue
			}
			break
		}
		if id, ok := t.(*ast.Ident); ok {
			name = id.Name + "." + name
		}
	}
	return pkg + "." + name
}

func (rw *rewriter) run() ([]byte, error) {
	f := rw.file
	// refuse files whose meaning depends on comments we are about to drop
	var keep []string
	for _, cg := range f.Comments {
		for _, c := range cg.List {
			t := c.Text
			switch {
			case strings.HasPrefix(t, "//go:build") || strings.HasPrefix(t, "// +build"):
				if c.Pos() < f.Package {
					keep = append(keep, t)
				}
			case strings.HasPrefix(t, "//go:embed"), strings.HasPrefix(t, "//go:linkname"), strings.HasPrefix(t, "//export "):
				rw.errorf(c.Pos(), "directive %q not supported", t)
			}
		}
	}
	for _, im := range f.Imports {
		switch strings.Trim(im.Path.Value, `"`) {
		case "C":
			rw.errorf(im.Pos(), "cgo not supported")
		case "sync/atomic":
			// atomic operations never block: they stay real operations (the race detector treats
			// them as synchronisation, as in the real program). A busy-wait loop on an atomic would
			// only make progress under a preempting schedule; the yield budget reports it as a hang.
			rep.Counts["sync/atomic import"]++
		case "os/signal", "context":
			// context is allowed as long as no timers hide in it; flag deadlines below
		}
	}
	rw.globalPass()
	for _, d := range f.Decls {
		switch d := d.(type) {
		case *ast.FuncDecl:
			rw.fn = funcDeclName(rw.pkg.Name(), d)
			rw.goN = 0
			if d.Body != nil {
				rw.funcBody(d.Body)
			}
		case *ast.GenDecl:
			rw.fn = rw.pkg.Name() + ".init"
			rw.goN = 0
			for _, sp := range d.Specs {
				if vs, ok := sp.(*ast.ValueSpec); ok {
					for _, v := range vs.Values {
						rw.checkExpr(v, nil)
					}
				}
			}
		}
	}
	if len(rw.errs) > 0 {
		return nil, nil
	}
	f.Comments = nil
	if rw.used {
		astutil.AddNamedImport(rw.fset, f, "simrt", simrtPath)
	}
	for _, p := range []string{"sync", "time", "runtime"} {
		if !astutil.UsesImport(f, p) {
			astutil.DeleteImport(rw.fset, f, p)
		}
	}
	var buf bytes.Buffer
	for _, k := range keep {
		buf.WriteString(k + "\n")
	}
	if len(keep) > 0 {
		buf.WriteString("\n")
	}
	pc := printer.Config{Mode: printer.UseSpaces | printer.TabIndent, Tabwidth: 8}
	if err := pc.Fprint(&buf, rw.fset, f); err != nil {
		return nil, fmt.Errorf("%s: print: %w", rw.fname, err)
	}
	return buf.Bytes(), nil
}

// globalPass renames package-qualified references that the simulator takes
// over and flags the ones it does not model.
func (rw *rewriter) globalPass() {
	ast.Inspect(rw.file, func(n ast.Node) bool {
		switch x := n.(type) {
		case *ast.SelectorExpr:
			id, ok := x.X.(*ast.Ident)
			if !ok {
				return true
			}
			switch rw.pkgOf(id) {
			case "sync":
				switch x.Sel.Name {
				case "WaitGroup", "Mutex", "Pool", "RWMutex":
					id.Name = "simrt"
					rw.used = true
					rep.Counts["sync."+x.Sel.Name]++
				default:
					rw.errorf(x.Pos(), "sync.%s is not modelled by the simulator", x.Sel.Name)
				}
			case "time":
				switch x.Sel.Name {
				case "Now", "After", "Sleep", "Since":
					id.Name = "simrt"
					rw.used = true
					rep.Counts["time."+x.Sel.Name]++
				case "NewTimer", "NewTicker", "Tick", "AfterFunc", "Until", "Timer", "Ticker":
					rw.errorf(x.Pos(), "time.%s is not modelled by the simulator", x.Sel.Name)
				}
			case "runtime":
				switch x.Sel.Name {
				case "NumCPU":
					id.Name = "simrt"
					rw.used = true
					rep.Counts["runtime.NumCPU"]++
				case "Gosched":
					id.Name = "simrt"
					x.Sel.Name = "Yield"
					rw.used = true
				case "GOMAXPROCS":
					id.Name = "simrt"
					rw.used = true
					rep.Counts["runtime.GOMAXPROCS"]++
				case "Goexit":
					// passes through: the real Goexit runs the deferred calls of the task's goroutine,
					// the outermost of which reports a regular exit of the task to the scheduler
					rep.Counts["runtime.Goexit"]++
				case "NumGoroutine", "LockOSThread":
					rw.errorf(x.Pos(), "runtime.%s is not modelled by the simulator", x.Sel.Name)
				}
			case "context":
				switch x.Sel.Name {
				case "WithTimeout", "WithDeadline", "WithTimeoutCause", "WithDeadlineCause", "AfterFunc":
					rw.errorf(x.Pos(), "context.%s is not modelled by the simulator", x.Sel.Name)
				}
			case "math/rand", "math/rand/v2":
				rep.Counts["math/rand use"]++
			}
		case *ast.CallExpr:
			if id, ok := x.Fun.(*ast.Ident); ok && id.Name == "close" {
				if _, isBuiltin := rw.info.Uses[id].(*types.Builtin); isBuiltin {
					x.Fun = rw.rt("Close")
					rep.Counts["close"]++
				}
			}
		}
		return true
	})
}

func (rw *rewriter) funcBody(b *ast.BlockStmt) {
	b.List = append([]ast.Stmt{rw.yieldStmt()}, rw.stmts(b.List)...)
}

func (rw *rewriter) loopBody(b *ast.BlockStmt) {
	b.List = append([]ast.Stmt{rw.yieldStmt()}, rw.stmts(b.List)...)
}

func (rw *rewriter) stmts(list []ast.Stmt) []ast.Stmt {
	var out []ast.Stmt
	for _, s := range list {
		out = append(out, rw.stmt(s, nil)...)
	}
	return out
}

func isRecv(e ast.Expr) (*ast.UnaryExpr, bool) {
	for {
		if p, ok := e.(*ast.ParenExpr); ok {
			e = p.X
			continue
		}
		break
	}
	u, ok := e.(*ast.UnaryExpr)
	if ok && u.Op == token.ARROW {
		return u, true
	}
	return nil, false
}

func hasCall(e ast.Expr) bool {
	found := false
	ast.Inspect(e, func(n ast.Node) bool {
		switch n.(type) {
		case *ast.CallExpr:
			found = true
		case *ast.FuncLit:
			return false
		}
		if u, ok := n.(*ast.UnaryExpr); ok && u.Op == token.ARROW {
			found = true
		}
		return !found
	})
	return found
}

// checkExpr processes function literals inside e and flags receive
// expressions other than allowed (the one handled by the caller).
func (rw *rewriter) checkExpr(e ast.Node, allowed *ast.UnaryExpr) {
	if e == nil {
		return
	}
	ast.Inspect(e, func(n ast.Node) bool {
		switch x := n.(type) {
		case *ast.FuncLit:
			rw.funcBody(x.Body)
			return false
		case *ast.UnaryExpr:
			if x.Op == token.ARROW && x != allowed {
				rw.errorf(x.Pos(), "receive expression nested inside a larger expression is not supported")
			}
		}
		return true
	})
}

func labeled(label *ast.Ident, s ast.Stmt) ast.Stmt {
	if label == nil {
		return s
	}
	return &ast.LabeledStmt{Label: label, Stmt: s}
}

func (rw *rewriter) stmt(s ast.Stmt, label *ast.Ident) []ast.Stmt {
	one := func(x ast.Stmt) []ast.Stmt { return []ast.Stmt{labeled(label, x)} }
	multi := func(xs []ast.Stmt) []ast.Stmt {
		if label != nil && len(xs) > 0 {
			xs[0] = labeled(label, xs[0])
		}
		return xs
	}
	switch s := s.(type) {
	case nil:
		return nil
	case *ast.LabeledStmt:
		if label != nil {
			// two labels on one statement: keep the outer one as an empty statement target
			inner := rw.stmt(s.Stmt, s.Label)
			return append([]ast.Stmt{&ast.LabeledStmt{Label: label, Stmt: &ast.EmptyStmt{}}}, inner...)
		}
		return rw.stmt(s.Stmt, s.Label)
	case *ast.BlockStmt:
		s.List = rw.stmts(s.List)
		return one(s)
	case *ast.IfStmt:
		rw.checkExpr(s.Init, nil)
		rw.checkExpr(s.Cond, nil)
		s.Body.List = rw.stmts(s.Body.List)
		if s.Else != nil {
			e := rw.stmt(s.Else, nil)
			if len(e) == 1 {
				s.Else = e[0]
			} else {
				s.Else = &ast.BlockStmt{List: e}
			}
		}
		return one(s)
	case *ast.ForStmt:
		rw.checkExpr(s.Init, nil)
		rw.checkExpr(s.Cond, nil)
		rw.checkExpr(s.Post, nil)
		rw.loopBody(s.Body)
		return one(s)
	case *ast.RangeStmt:
		return rw.rangeStmt(s, label)
	case *ast.SwitchStmt:
		rw.checkExpr(s.Init, nil)
		rw.checkExpr(s.Tag, nil)
		for _, c := range s.Body.List {
			cc := c.(*ast.CaseClause)
			for _, e := range cc.List {
				rw.checkExpr(e, nil)
			}
			cc.Body = rw.stmts(cc.Body)
		}
		return one(s)
	case *ast.TypeSwitchStmt:
		rw.checkExpr(s.Init, nil)
		rw.checkExpr(s.Assign, nil)
		for _, c := range s.Body.List {
			cc := c.(*ast.CaseClause)
			cc.Body = rw.stmts(cc.Body)
		}
		return one(s)
	case *ast.SelectStmt:
		return []ast.Stmt{rw.selectStmt(s, label)}
	case *ast.GoStmt:
		return multi(rw.goStmt(s))
	case *ast.SendStmt:
		return multi(rw.sendStmt(s))
	case *ast.ExprStmt:
		if u, ok := isRecv(s.X); ok {
			return multi(rw.recvStmt(s, u))
		}
		rw.checkExpr(s.X, nil)
		return one(s)
	case *ast.AssignStmt:
		if len(s.Rhs) == 1 {
			if u, ok := isRecv(s.Rhs[0]); ok {
				for _, l := range s.Lhs {
					rw.checkExpr(l, nil)
				}
				return multi(rw.recvStmt(s, u))
			}
		}
		rw.checkExpr(s, nil)
		return one(s)
	case *ast.DeclStmt:
		if gd, ok := s.Decl.(*ast.GenDecl); ok && gd.Tok == token.VAR && len(gd.Specs) == 1 {
			if vs := gd.Specs[0].(*ast.ValueSpec); len(vs.Values) == 1 {
				if u, ok := isRecv(vs.Values[0]); ok {
					return multi(rw.recvStmt(s, u))
				}
			}
		}
		rw.checkExpr(s, nil)
		return one(s)
	default:
		rw.checkExpr(s, nil)
		return one(s)
	}
}

// hoist returns an identifier bound to e by a := statement appended to pre,
// or e itself when evaluating it twice is harmless.
func (rw *rewriter) hoist(pre *[]ast.Stmt, e ast.Expr, kind string, always bool) ast.Expr {
	if !always && !hasCall(e) {
		return e
	}
	rw.checkExpr(e, nil)
	n := rw.uniq(kind)
	*pre = append(*pre, define(n, e))
	return ident(n)
}

func (rw *rewriter) sendStmt(s *ast.SendStmt) []ast.Stmt {
	rep.Counts["send"]++
	var out []ast.Stmt
	pos := s.Pos()
	s.Chan = rw.hoist(&out, s.Chan, "c", false)
	if tv, ok := rw.info.Types[s.Value]; !(ok && tv.Value != nil) {
		if hasCall(s.Value) {
			// evaluate the value before the gate; give it the channel's element type
			s.Value = rw.hoist(&out, s.Value, "v", true)
		} else {
			rw.checkExpr(s.Value, nil)
		}
	}
	tok := rw.uniq("t")
	out = append(out, define(tok, call(rw.rt("Send"), s.Chan, rw.site(pos))))
	out = append(out, s)
	out = append(out, &ast.ExprStmt{X: call(rw.rt("Done"), ident(tok))})
	return out
}

func (rw *rewriter) recvStmt(s ast.Stmt, u *ast.UnaryExpr) []ast.Stmt {
	rep.Counts["recv"]++
	var out []ast.Stmt
	pos := u.Pos()
	u.X = rw.hoist(&out, u.X, "c", false)
	tok := rw.uniq("t")
	out = append(out, define(tok, call(rw.rt("Recv"), u.X, rw.site(pos))))
	out = append(out, s)
	out = append(out, &ast.ExprStmt{X: call(rw.rt("Done"), ident(tok))})
	return out
}

func (rw *rewriter) goStmt(s *ast.GoStmt) []ast.Stmt {
	rep.Counts["go"]++
	var out []ast.Stmt
	c := s.Call
	role := fmt.Sprintf("%s.go%d", rw.fn, rw.goN)
	rw.goN++
	if tv, ok := rw.info.Types[c.Fun]; ok && (tv.IsType() || tv.IsBuiltin()) {
		rw.errorf(s.Pos(), "go statement with a conversion or builtin is not supported")
		return []ast.Stmt{s}
	}
	var body ast.Stmt
	if fl, ok := c.Fun.(*ast.FuncLit); ok && len(c.Args) == 0 {
		rw.funcBody(fl.Body)
		out = append(out, &ast.ExprStmt{X: call(rw.rt("Go"), strLit(role), fl)})
		return out
	}
	fun := c.Fun
	switch f := fun.(type) {
	case *ast.FuncLit:
		rw.funcBody(f.Body)
	case *ast.Ident:
		if _, isFunc := rw.info.Uses[f].(*types.Func); !isFunc {
			fun = rw.hoist(&out, fun, "f", true)
		}
	case *ast.SelectorExpr:
		if _, isMethodVal := rw.info.Selections[f]; isMethodVal {
			fun = rw.hoist(&out, fun, "f", true)
		} else if id, ok := f.X.(*ast.Ident); !(ok && rw.pkgOf(id) != "") {
			fun = rw.hoist(&out, fun, "f", true)
		}
	case *ast.IndexExpr, *ast.IndexListExpr:
		// generic instantiation of a declared function: evaluate in place
		rw.checkExpr(fun, nil)
	default:
		fun = rw.hoist(&out, fun, "f", true)
	}
	args := make([]ast.Expr, len(c.Args))
	for i, a := range c.Args {
		tv, ok := rw.info.Types[a]
		switch {
		case ok && tv.Value != nil, ok && tv.IsNil():
			args[i] = a
		default:
			if _, isLit := a.(*ast.FuncLit); isLit {
				rw.checkExpr(a, nil)
				args[i] = a
			} else {
				args[i] = rw.hoist(&out, a, "a", true)
			}
		}
	}
	inner := &ast.CallExpr{Fun: fun, Args: args, Ellipsis: c.Ellipsis}
	if c.Ellipsis != token.NoPos {
		inner.Ellipsis = 1
	}
	body = &ast.ExprStmt{X: inner}
	lit := &ast.FuncLit{Type: &ast.FuncType{Params: &ast.FieldList{}}, Body: &ast.BlockStmt{List: []ast.Stmt{body}}}
	out = append(out, &ast.ExprStmt{X: call(rw.rt("Go"), strLit(role), lit)})
	return out
}

func isBlank(e ast.Expr) bool {
	id, ok := e.(*ast.Ident)
	return e == nil || ok && id.Name == "_"
}

func (rw *rewriter) enclosing() string { return rw.fn }

func (rw *rewriter) rangeStmt(s *ast.RangeStmt, label *ast.Ident) []ast.Stmt {
	rw.checkExpr(s.X, nil)
	tv := rw.info.Types[s.X]
	if tv.Type == nil {
		rw.loopBody(s.Body)
		return []ast.Stmt{labeled(label, s)}
	}
	switch u := tv.Type.Underlying().(type) {
	case *types.Chan:
		rep.Counts["range-chan"]++
		var out []ast.Stmt
		ch := rw.uniq("c")
		out = append(out, define(ch, s.X))
		tok := rw.uniq("t")
		okN := rw.uniq("ok")
		var body []ast.Stmt
		body = append(body, define(tok, call(rw.rt("Recv"), ident(ch), rw.site(s.Pos()))))
		recv := &ast.UnaryExpr{Op: token.ARROW, X: ident(ch)}
		if s.Tok == token.ASSIGN && !isBlank(s.Key) {
			body = append(body, &ast.DeclStmt{Decl: &ast.GenDecl{Tok: token.VAR, Specs: []ast.Spec{
				&ast.ValueSpec{Names: []*ast.Ident{ident(okN)}, Type: ident("bool")}}}})
			body = append(body, &ast.AssignStmt{Lhs: []ast.Expr{s.Key, ident(okN)}, Tok: token.ASSIGN, Rhs: []ast.Expr{recv}})
		} else {
			var k ast.Expr = ident("_")
			if !isBlank(s.Key) {
				k = s.Key
			}
			body = append(body, &ast.AssignStmt{Lhs: []ast.Expr{k, ident(okN)}, Tok: token.DEFINE, Rhs: []ast.Expr{recv}})
		}
		body = append(body, &ast.ExprStmt{X: call(rw.rt("Done"), ident(tok))})
		body = append(body, &ast.IfStmt{Cond: &ast.UnaryExpr{Op: token.NOT, X: ident(okN)},
			Body: &ast.BlockStmt{List: []ast.Stmt{&ast.BranchStmt{Tok: token.BREAK}}}})
		body = append(body, rw.yieldStmt())
		body = append(body, rw.stmts(s.Body.List)...)
		out = append(out, labeled(label, &ast.ForStmt{Body: &ast.BlockStmt{List: body}}))
		return out
	case *types.Map:
		ordered := false
		if b, ok := u.Key().Underlying().(*types.Basic); ok && b.Info()&types.IsOrdered != 0 {
			ordered = true
		}
		if _, isTP := u.Key().(*types.TypeParam); isTP {
			ordered = false
		}
		if _, isTP := tv.Type.(*types.TypeParam); isTP {
			ordered = false
		}
		if !ordered {
			rep.UnorderedMap = append(rep.UnorderedMap, rw.fn)
			rw.loopBody(s.Body)
			return []ast.Stmt{labeled(label, s)}
		}
		// refuse loops that change the map they range over
		xs := rw.exprString(s.X)
		ast.Inspect(s.Body, func(n ast.Node) bool {
			switch x := n.(type) {
			case *ast.CallExpr:
				if id, ok := x.Fun.(*ast.Ident); ok && id.Name == "delete" && len(x.Args) > 0 && rw.exprString(x.Args[0]) == xs {
					rw.errorf(x.Pos(), "loop deletes from the map it ranges over")
				}
			case *ast.AssignStmt:
				for _, l := range x.Lhs {
					if ix, ok := l.(*ast.IndexExpr); ok && rw.exprString(ix.X) == xs {
						rw.errorf(x.Pos(), "loop assigns into the map it ranges over")
					}
				}
			}
			return true
		})
		rep.Counts["range-map"]++
		var out []ast.Stmt
		m := rw.uniq("m")
		out = append(out, define(m, s.X))
		var body []ast.Stmt
		keyName := rw.uniq("k")
		var keyExpr ast.Expr = ident(keyName)
		if s.Tok == token.DEFINE && !isBlank(s.Key) {
			keyExpr = s.Key
			keyName = s.Key.(*ast.Ident).Name
		} else if s.Tok == token.ASSIGN && !isBlank(s.Key) {
			body = append(body, &ast.AssignStmt{Lhs: []ast.Expr{s.Key}, Tok: token.ASSIGN, Rhs: []ast.Expr{ident(keyName)}})
		}
		if !isBlank(s.Value) {
			body = append(body, &ast.AssignStmt{Lhs: []ast.Expr{s.Value}, Tok: s.Tok,
				Rhs: []ast.Expr{&ast.IndexExpr{X: ident(m), Index: ident(keyName)}}})
		}
		body = append(body, rw.yieldStmt())
		body = append(body, rw.stmts(s.Body.List)...)
		loop := &ast.RangeStmt{Key: ident("_"), Value: keyExpr, Tok: token.DEFINE,
			X: call(rw.rt("MapOrder"), ident(m)), Body: &ast.BlockStmt{List: body}}
		out = append(out, labeled(label, loop))
		return out
	}
	rw.loopBody(s.Body)
	return []ast.Stmt{labeled(label, s)}
}

func (rw *rewriter) exprString(e ast.Expr) string {
	var b bytes.Buffer
	printer.Fprint(&b, rw.fset, e)
	return b.String()
}

func (rw *rewriter) selectStmt(s *ast.SelectStmt, label *ast.Ident) ast.Stmt {
	rep.Counts["select"]++
	var pre []ast.Stmt
	selN, tokN := rw.uniq("sel"), rw.uniq("t")
	type clause struct {
		cc       *ast.CommClause
		ch, val  ast.Expr
		send     bool
		res, okv string
		lhs      []ast.Expr
		tok      token.Token
	}
	var cls []*clause
	hasDefault := false
	for _, c := range s.Body.List {
		cc := c.(*ast.CommClause)
		cl := &clause{cc: cc}
		switch comm := cc.Comm.(type) {
		case nil:
			hasDefault = true
		case *ast.SendStmt:
			cl.send = true
			cl.ch = rw.hoist(&pre, comm.Chan, "c", true)
			if tv, ok := rw.info.Types[comm.Value]; ok && tv.Value != nil {
				cl.val = comm.Value
			} else {
				// typed temporary of the channel's element type
				rw.checkExpr(comm.Value, nil)
				v := rw.uniq("v")
				pre = append(pre, define(v, call(rw.rt("ZeroS"), cl.ch)))
				pre = append(pre, &ast.AssignStmt{Lhs: []ast.Expr{ident(v)}, Tok: token.ASSIGN, Rhs: []ast.Expr{comm.Value}})
				cl.val = ident(v)
			}
		case *ast.ExprStmt:
			u, ok := isRecv(comm.X)
			if !ok {
				rw.errorf(comm.Pos(), "unsupported select clause")
				continue
			}
			cl.ch = rw.hoist(&pre, u.X, "c", true)
		case *ast.AssignStmt:
			u, ok := isRecv(comm.Rhs[0])
			if !ok {
				rw.errorf(comm.Pos(), "unsupported select clause")
				continue
			}
			cl.ch = rw.hoist(&pre, u.X, "c", true)
			cl.lhs = comm.Lhs
			cl.tok = comm.Tok
			for _, l := range comm.Lhs {
				rw.checkExpr(l, nil)
			}
			cl.res = rw.uniq("r")
			pre = append(pre, define(cl.res, call(rw.rt("ZeroR"), cl.ch)))
			if len(comm.Lhs) == 2 {
				cl.okv = rw.uniq("ok")
				pre = append(pre, &ast.DeclStmt{Decl: &ast.GenDecl{Tok: token.VAR, Specs: []ast.Spec{
					&ast.ValueSpec{Names: []*ast.Ident{ident(cl.okv)}, Type: ident("bool")}}}})
			}
		default:
			rw.errorf(cc.Pos(), "unsupported select clause")
			continue
		}
		cls = append(cls, cl)
	}
	// var _sel int; var _tok *simrt.Task
	pre = append(pre, &ast.DeclStmt{Decl: &ast.GenDecl{Tok: token.VAR, Specs: []ast.Spec{
		&ast.ValueSpec{Names: []*ast.Ident{ident(selN)}, Type: ident("int")}}}})
	pre = append(pre, &ast.DeclStmt{Decl: &ast.GenDecl{Tok: token.VAR, Specs: []ast.Spec{
		&ast.ValueSpec{Names: []*ast.Ident{ident(tokN)}, Type: &ast.StarExpr{X: rw.rt("Task")}}}}})

	realOp := func(cl *clause) ast.Stmt {
		switch {
		case cl.send:
			return &ast.SendStmt{Chan: cl.ch, Value: cl.val}
		case cl.res == "":
			return &ast.ExprStmt{X: &ast.UnaryExpr{Op: token.ARROW, X: cl.ch}}
		default:
			lhs := []ast.Expr{ident(cl.res)}
			if cl.okv != "" {
				lhs = append(lhs, ident(cl.okv))
			}
			return &ast.AssignStmt{Lhs: lhs, Tok: token.ASSIGN, Rhs: []ast.Expr{&ast.UnaryExpr{Op: token.ARROW, X: cl.ch}}}
		}
	}
	intLit := func(i int) ast.Expr {
		if i < 0 {
			return &ast.UnaryExpr{Op: token.SUB, X: &ast.BasicLit{Kind: token.INT, Value: fmt.Sprint(-i)}}
		}
		return &ast.BasicLit{Kind: token.INT, Value: fmt.Sprint(i)}
	}
	setSel := func(i int) ast.Stmt {
		return &ast.AssignStmt{Lhs: []ast.Expr{ident(selN)}, Tok: token.ASSIGN, Rhs: []ast.Expr{intLit(i)}}
	}
	// simulated branch
	selArgs := []ast.Expr{rw.site(s.Pos()), ident(fmt.Sprint(hasDefault))}
	var passCases []ast.Stmt
	idx := 0
	for _, cl := range cls {
		if cl.cc.Comm == nil {
			passCases = append(passCases, &ast.CommClause{Body: []ast.Stmt{setSel(-1)}})
			continue
		}
		kv := []ast.Expr{&ast.KeyValueExpr{Key: ident("Ch"), Value: cl.ch}}
		if cl.send {
			kv = append(kv, &ast.KeyValueExpr{Key: ident("Send"), Value: ident("true")})
		}
		selArgs = append(selArgs, &ast.CompositeLit{Type: rw.rt("SelCase"), Elts: kv})
		passCases = append(passCases, &ast.CommClause{Comm: realOp(cl), Body: []ast.Stmt{setSel(idx)}})
		idx++
	}
	simBranch := &ast.BlockStmt{List: []ast.Stmt{&ast.AssignStmt{
		Lhs: []ast.Expr{ident(selN), ident(tokN)}, Tok: token.ASSIGN,
		Rhs: []ast.Expr{call(rw.rt("Select"), selArgs...)}}}}
	passBranch := &ast.BlockStmt{List: []ast.Stmt{&ast.SelectStmt{Body: &ast.BlockStmt{List: passCases}}}}
	pre = append(pre, &ast.IfStmt{Cond: call(rw.rt("Active")), Body: simBranch, Else: passBranch})

	// dispatch switch
	var swCases []ast.Stmt
	idx = 0
	for _, cl := range cls {
		var body []ast.Stmt
		var caseVal ast.Expr
		if cl.cc.Comm == nil {
			caseVal = intLit(-1)
		} else {
			caseVal = intLit(idx)
			idx++
			body = append(body, &ast.IfStmt{
				Cond: &ast.BinaryExpr{X: ident(tokN), Op: token.NEQ, Y: ident("nil")},
				Body: &ast.BlockStmt{List: []ast.Stmt{realOp(cl), &ast.ExprStmt{X: call(rw.rt("Done"), ident(tokN))}}}})
			if cl.res != "" {
				rhs := []ast.Expr{ident(cl.res)}
				if cl.okv != "" {
					rhs = append(rhs, ident(cl.okv))
				}
				tok := cl.tok
				allBlank := true
				for _, l := range cl.lhs {
					if !isBlank(l) {
						allBlank = false
					}
				}
				if allBlank {
					tok = token.ASSIGN
				}
				body = append(body, &ast.AssignStmt{Lhs: cl.lhs, Tok: tok, Rhs: rhs})
			}
		}
		body = append(body, rw.stmts(cl.cc.Body)...)
		swCases = append(swCases, &ast.CaseClause{List: []ast.Expr{caseVal}, Body: body})
	}
	// A select whose arms all end in return (or panic) is a terminating statement; the dispatch switch
	// is one too only with a default clause (never reached: the index comes from the select above).
	swCases = append(swCases, &ast.CaseClause{Body: []ast.Stmt{&ast.ExprStmt{X: call(ident("panic"), &ast.BasicLit{Kind: token.STRING, Value: `"simrt: select dispatch out of range"`})}}})
	sw := &ast.SwitchStmt{Tag: ident(selN), Body: &ast.BlockStmt{List: swCases}}
	pre = append(pre, labeled(label, sw))
	return &ast.BlockStmt{List: pre}
}
