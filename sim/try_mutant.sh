#!/bin/bash
# usage: try_mutant.sh <patch.diff> <prop> [prop...]   -- applies the patch to /repo, runs the quick checks, undoes it
P=$1; shift
cd /repo || exit 2
git apply "$P" || { echo "patch does not apply"; exit 2; }
for prop in "$@"; do
  cd /verif
  /usr/bin/time -f "$prop %es" ./check $prop ${TIER:-quick} > /tmp/mutant.$prop.out 2>&1
  echo "$prop exit=$? $(grep -c '^VIOLATION' /tmp/mutant.$prop.out) violation line(s)"
  grep -A3 '^VIOLATION' /tmp/mutant.$prop.out | cut -c1-260 | head -12
  tail -1 /tmp/mutant.$prop.out | cut -c1-200
done
git -C /repo checkout -- . ; git -C /repo status --short | head -3
# evidence files are rewritten by the runs above: restore the committed ones
git -C /verif checkout -- evidence 2>/dev/null
