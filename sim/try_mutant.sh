#!/bin/bash
# usage: try_mutant.sh <abs patch.diff> <prop> [prop...]
# applies the patch to a scratch worktree of /repo's HEAD (never to /repo itself), runs the quick checks
# against it (VERIF_REPO), removes the worktree; the evidence files rewritten by those runs are restored
P=$1; shift
W=/tmp/mutrepo.$$
git -C /repo worktree add --detach $W HEAD >/dev/null 2>&1 || { echo "cannot create worktree"; exit 2; }
git -C $W apply "$P" || { echo "patch does not apply"; git -C /repo worktree remove --force $W; exit 2; }
for prop in "$@"; do
  cd /verif
  VERIF_REPO=$W /usr/bin/time -f "$prop %es" ./check $prop ${TIER:-quick} > /tmp/mutant.$prop.out 2>&1
  echo "$prop exit=$? $(grep -c '^VIOLATION' /tmp/mutant.$prop.out) violation line(s)"
  grep -A3 '^VIOLATION' /tmp/mutant.$prop.out | cut -c1-260 | head -12
  tail -1 /tmp/mutant.$prop.out | cut -c1-200
done
git -C /repo worktree remove --force $W; git -C /repo worktree prune
git -C /verif checkout -- evidence 2>/dev/null
