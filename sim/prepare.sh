#!/bin/bash
# usage: prepare.sh <scratchdir> [race]  -- copies /repo (or $VERIF_REPO) + iterator, rewrites, builds the worker(s)
set -e
S=$1
export GOFLAGS=-mod=mod GOPROXY=off
rm -rf "$S"; mkdir -p "$S"
R=${VERIF_REPO:-/repo}
rsync -a --exclude .git $R/ "$S/parser2/"
IT=$(cd $R && go list -m -f '{{.Dir}}' github.com/hneemann/iterator)
cp -r "$IT" "$S/iterator"; chmod -R u+w "$S/iterator"
cat >> "$S/parser2/go.mod" <<EOT

require verif.local/simrt v0.0.0
replace verif.local/simrt => /verif/sim/simrt
replace github.com/hneemann/iterator => ../iterator
EOT
cat >> "$S/iterator/go.mod" <<EOT

require verif.local/simrt v0.0.0
replace verif.local/simrt => /verif/sim/simrt
EOT
/verif/bin/simrewrite -dir "$S/parser2" -pkgs github.com/hneemann/parser2,github.com/hneemann/parser2/funcGen,github.com/hneemann/parser2/value,github.com/hneemann/parser2/listMap,github.com/hneemann/iterator > "$S/rewrite.json"
mkdir -p "$S/worker"; cp /verif/sim/worker/*.go "$S/worker/"; sed "s#@SIMRT@#/verif/sim/simrt#" /verif/sim/worker/go.mod.tmpl > "$S/worker/go.mod"
cd "$S/worker"; go build -o worker . 
if [ "$2" = race ]; then go build -race -o worker.race . ; fi
