package main

import (
	"errors"
	"fmt"
	"sort"
	"strconv"
	"strings"
	"time"

	"github.com/hneemann/iterator"
	"github.com/hneemann/parser2/funcGen"
	"github.com/hneemann/parser2/value"
	"verif.local/simrt"
)

// ---------- host tables (per run, read-only during the run) ----------

// CostProf: cost of the n-th call (per stage id) is Mid if From <= n < To, else Base (ns).
type CostProf struct {
	Base int64 `json:"base,omitempty"`
	Mid  int64 `json:"mid,omitempty"`
	From int   `json:"from,omitempty"`
	To   int   `json:"to,omitempty"`
}

// Match selects element values: Kind "eq": x==A; "mod": x%A==B; "ge": x>=A; "": none.
type Match struct {
	Kind string `json:"kind,omitempty"`
	A    int    `json:"a,omitempty"`
	B    int    `json:"b,omitempty"`
}

//go:norace
func (m Match) hit(x int) bool {
	switch m.Kind {
	case "eq":
		return x == m.A
	case "mod":
		return m.A > 0 && x%m.A == m.B
	case "ge":
		return x >= m.A
	}
	return false
}

type HostTables struct {
	Costs []CostProf `json:"costs,omitempty"` // by stage id
	Fails []Match    `json:"fails,omitempty"`
	Booms []Match    `json:"booms,omitempty"`
}

const maxStages = 16
const maxProbes = 8192

// hostState is the mutable part; only the baton holder touches it (plain stores,
// //go:norace: nothing here may add happens-before edges between workers).
type hostState struct {
	tab        HostTables
	calls      [maxStages]int
	nProbe     int
	probeS     [maxProbes]int8
	probeX     [maxProbes]int64
	probeAt    [maxProbes]int64 // simulated time of the probe
	probeR     [maxProbes]int16 // role id of the task that ran it
	probeOv    bool
	abortAbove int64
	fired      map[string]int // written only through fire()
	firedArr   [8]int
	roles      []string
}

const (
	fCost = iota
	fFail
	fBoom
	fProbe
	fSrcFail
	fStall
)

var host *hostState

//go:norace
func (h *hostState) roleID() int16 {
	t := simrt.Current()
	if t == nil {
		return -1
	}
	for i, r := range h.roles {
		if r == t.Role {
			return int16(i)
		}
	}
	h.roles = append(h.roles, t.Role)
	return int16(len(h.roles) - 1)
}

//go:norace
func hostCost(s, x int) {
	h := host
	if s < 0 || s >= maxStages {
		return
	}
	n := h.calls[s]
	h.calls[s]++
	if s >= len(h.tab.Costs) {
		return
	}
	c := h.tab.Costs[s]
	d := c.Base
	if n >= c.From && n < c.To {
		d = c.Mid
	}
	if d > 0 {
		h.firedArr[fCost]++
		simrt.Work(time.Duration(d))
	}
}

//go:norace
func hostProbe(s, x int) {
	h := host
	if h.nProbe >= maxProbes {
		h.probeOv = true
		return
	}
	i := h.nProbe
	h.nProbe++
	if s == 0 && h.abortAbove > 0 && int64(x) > h.abortAbove {
		// the demand verdict is decided; do not run the pipeline to its budget
		simrt.RequestEnd("demand-exceeded")
	}
	h.probeS[i] = int8(s)
	h.probeX[i] = int64(x)
	h.probeAt[i] = simrt.SimNow()
	h.probeR[i] = h.roleID()
	h.firedArr[fProbe]++
}

//go:norace
func hostFail(s, x int) bool {
	h := host
	if s >= 0 && s < len(h.tab.Fails) && h.tab.Fails[s].hit(x) {
		h.firedArr[fFail]++
		return true
	}
	return false
}

//go:norace
func hostBoom(s, x int) bool {
	h := host
	if s >= 0 && s < len(h.tab.Booms) && h.tab.Booms[s].hit(x) {
		h.firedArr[fBoom]++
		return true
	}
	return false
}

func twoInts(st funcGen.Stack[value.Value]) (int, int, error) {
	s, ok := st.Get(0).(value.Int)
	if !ok {
		return 0, 0, errors.New("host function: stage id must be an int")
	}
	x, ok := st.Get(1).(value.Int)
	if !ok {
		// non-int payloads are passed through uncharged (key = -1)
		return int(s), -1, nil
	}
	return int(s), int(x), nil
}

func hostFn(f func(st funcGen.Stack[value.Value]) (value.Value, error), pure bool) funcGen.Function[value.Value] {
	return funcGen.Function[value.Value]{
		Func:   func(st funcGen.Stack[value.Value], cs []value.Value) (value.Value, error) { return f(st) },
		Args:   2,
		IsPure: pure,
	}
}

// newValueGen builds the value generator with the harness' host functions.
func newValueGen(comments, comfort bool) *value.FunctionGenerator {
	fg := value.New()
	if comfort {
		fg.SetComfort(true)
	}
	fg.AddStaticFunction("cost", hostFn(func(st funcGen.Stack[value.Value]) (value.Value, error) {
		s, x, err := twoInts(st)
		if err != nil {
			return nil, err
		}
		hostCost(s, x)
		return st.Get(1), nil
	}, false))
	fg.AddStaticFunction("pcost", hostFn(func(st funcGen.Stack[value.Value]) (value.Value, error) {
		s, x, err := twoInts(st)
		if err != nil {
			return nil, err
		}
		hostCost(s, x)
		return st.Get(1), nil
	}, true))
	fg.AddStaticFunction("probe", hostFn(func(st funcGen.Stack[value.Value]) (value.Value, error) {
		s, x, err := twoInts(st)
		if err != nil {
			return nil, err
		}
		hostProbe(s, x)
		return st.Get(1), nil
	}, false))
	fg.AddStaticFunction("fail", hostFn(func(st funcGen.Stack[value.Value]) (value.Value, error) {
		s, x, err := twoInts(st)
		if err != nil {
			return nil, err
		}
		if hostFail(s, x) {
			return nil, fmt.Errorf("injected failure at stage %d element %d", s, x)
		}
		return st.Get(1), nil
	}, false))
	fg.AddStaticFunction("boom", hostFn(func(st funcGen.Stack[value.Value]) (value.Value, error) {
		s, x, err := twoInts(st)
		if err != nil {
			return nil, err
		}
		if hostBoom(s, x) {
			panic(fmt.Sprintf("injected host panic at stage %d element %d", s, x))
		}
		return st.Get(1), nil
	}, false))
	if comments {
		fg.GetParser().AllowComments()
	}
	return fg
}

// ---------- canonical rendering of results ----------

func canon(b *strings.Builder, v value.Value, st funcGen.Stack[value.Value], limit int, depth int) error {
	if depth > 40 {
		b.WriteString("<deep>")
		return nil
	}
	switch x := v.(type) {
	case nil:
		b.WriteString("nil")
	case value.Int:
		b.WriteString("i")
		b.WriteString(strconv.Itoa(int(x)))
	case value.Float:
		b.WriteString("f")
		b.WriteString(strconv.FormatFloat(float64(x), 'g', -1, 64))
	case value.String:
		b.WriteString(strconv.Quote(string(x)))
	case value.Bool:
		if x {
			b.WriteString("T")
		} else {
			b.WriteString("F")
		}
	case *value.List:
		b.WriteString("[")
		n := 0
		for e, err := range x.Iterate(st) {
			if limit >= 0 && n == limit {
				// the host stops here: whatever this element carries (also an error) is not looked at
				b.WriteString("..")
				break
			}
			if err != nil {
				return err
			}
			if n > 0 {
				b.WriteString(",")
			}
			if err := canon(b, e, st, -1, depth+1); err != nil {
				return err
			}
			n++
		}
		b.WriteString("]")
	case value.Map:
		type kv struct {
			k string
			v value.Value
		}
		var kvs []kv
		x.Iter(func(k string, v value.Value) bool {
			kvs = append(kvs, kv{k, v})
			return true
		})
		sort.Slice(kvs, func(i, j int) bool { return kvs[i].k < kvs[j].k })
		b.WriteString("{")
		for i, e := range kvs {
			if i > 0 {
				b.WriteString(",")
			}
			b.WriteString(e.k)
			b.WriteString(":")
			if err := canon(b, e.v, st, -1, depth+1); err != nil {
				return err
			}
		}
		b.WriteString("}")
	case value.Closure:
		fmt.Fprintf(b, "closure/%d", x.Args)
	default:
		fmt.Fprintf(b, "<%T>", v)
	}
	return nil
}

// ---------- host data sources ----------

// hostList builds a lazy list of n ints whose producer fails at element failAt on
// traversal number failOn (1-based); later traversals are fine (transient-source).
type srcState struct {
	traversals int
}

// next counts traversals. The same host list may be iterated by two producer
// goroutines at once (h.merge(h, ...)); the counter is harness state and must not
// show up in the race detector (only the baton holder runs, so the count is exact).
//
//go:norace
func (s *srcState) next() int {
	s.traversals++
	return s.traversals
}

func hostList(n int, failAt, failOn int) *value.List {
	s := &srcState{}
	return value.NewListFromIterable(func(st funcGen.Stack[value.Value]) iterator.Producer[value.Value] {
		return func(yield iterator.Consumer[value.Value]) {
			tr := s.next()
			for i := 0; i < n; i++ {
				if failAt >= 0 && i == failAt && tr == failOn {
					noteFired(fSrcFail)
					if !yield(nil, errors.New("injected transient source failure")) {
						return
					}
					return
				}
				if !yield(value.Int(i), nil) {
					return
				}
			}
		}
	})
}

//go:norace
func noteFired(k int) {
	if host != nil {
		host.firedArr[k]++
	}
}
