package main

import (
	"encoding/json"
	"fmt"
	"os"
	"time"

	"verif.local/simrt"
)

func smoke(args []string) {
	type tc struct {
		name string
		sc   Script
		sim  SimCfg
	}
	slow := HostTables{Costs: []CostProf{{Base: 400_000}}}
	cases := []tc{
		{"syntax-error", Script{Setup: []Op{{Kind: "gen", Text: "1+*", ArgNames: []string{"a"}}}}, SimCfg{NumCPU: 4}},
		{"ok-parse", Script{Setup: []Op{{Kind: "gen", Text: "a+1", ArgNames: []string{"a"}}},
			Clients: [][]Op{{{Kind: "eval", Args: []Arg{{K: "int", I: 5}}, Consume: -1}}}}, SimCfg{NumCPU: 4}},
		{"seq-pipe", Script{Setup: []Op{{Kind: "gen", Text: "numbers(a).combine((x,y)->x+y).map(x->cost(0,x)).reduce((x,y)->x+y)", ArgNames: []string{"a"}}},
			Clients: [][]Op{{{Kind: "eval", Args: []Arg{{K: "int", I: 300}}, Consume: -1}}}}, SimCfg{NumCPU: 1}},
		{"par-pipe-canon", Script{Host: slow, Setup: []Op{{Kind: "gen", Text: "numbers(a).combine((x,y)->x+y).map(x->cost(0,x)).reduce((x,y)->x+y)", ArgNames: []string{"a"}}},
			Clients: [][]Op{{{Kind: "eval", Args: []Arg{{K: "int", I: 300}}, Consume: -1}}}}, SimCfg{NumCPU: 4}},
		{"par-pipe-random", Script{Host: slow, Setup: []Op{{Kind: "gen", Text: "numbers(a).combine((x,y)->x+y).map(x->cost(0,x)).reduce((x,y)->x+y)", ArgNames: []string{"a"}}},
			Clients: [][]Op{{{Kind: "eval", Args: []Arg{{K: "int", I: 300}}, Consume: -1}}}}, SimCfg{NumCPU: 4, Policy: "random", PreemptP: 0.02, SchedSeed: 7}},
		{"par-earlystop", Script{Host: slow, Setup: []Op{{Kind: "gen", Text: "numbers(a).map(x->cost(0,x)).top(20).size()", ArgNames: []string{"a"}}},
			Clients: [][]Op{{{Kind: "eval", Args: []Arg{{K: "int", I: 200}}, Consume: -1}}}}, SimCfg{NumCPU: 4, Policy: "random", PreemptP: 0.01, SchedSeed: 3}},
		{"merge", Script{Setup: []Op{{Kind: "gen", Text: "numbers(a).merge(numbers(a).map(x->x*2),(p,q)->p<q).first()", ArgNames: []string{"a"}}},
			Clients: [][]Op{{{Kind: "eval", Args: []Arg{{K: "int", I: 50}}, Consume: -1}}}}, SimCfg{NumCPU: 4, Policy: "random", PreemptP: 0.01, SchedSeed: 3}},
		{"multiuse", Script{Setup: []Op{{Kind: "gen", Text: "numbers(a).multiUse({s: l->l.sum(), n: l->l.size(), f: l->l.first()})", ArgNames: []string{"a"}}},
			Clients: [][]Op{{{Kind: "eval", Args: []Arg{{K: "int", I: 50}}, Consume: -1}}}}, SimCfg{NumCPU: 4, Policy: "random", PreemptP: 0.01, SchedSeed: 5}},
		{"multiuse-noread", Script{Setup: []Op{{Kind: "gen", Text: "numbers(a).multiUse({s: l->l.sum(), n: l->1})", ArgNames: []string{"a"}}},
			Clients: [][]Op{{{Kind: "eval", Args: []Arg{{K: "int", I: 50}}, Consume: -1}}}}, SimCfg{NumCPU: 4, Policy: "random", PreemptP: 0.01, SchedSeed: 5}},
		{"worker-panic", Script{Host: slow, Setup: []Op{{Kind: "gen", Text: "numbers(a).map(x->cost(0,x)%(x-50)).sum()", ArgNames: []string{"a"}}},
			Clients: [][]Op{{{Kind: "eval", Args: []Arg{{K: "int", I: 100}}, Consume: -1}}}}, SimCfg{NumCPU: 4}},
	}
	for _, c := range cases {
		if len(args) > 0 && args[0] != c.name {
			continue
		}
		t0 := time.Now()
		out := runScript(&c.sc, c.sim, Budgets{GraceYields: 200000, GraceTime: int64(time.Second), KeepLog: len(args) > 1})
		el := time.Since(t0)
		fmt.Printf("== %s: end=%s rootDone=%v races=%d wall=%v yields=%d decs=%d tasks=%d maxlive=%d simtime=%v fp=%x\n", c.name, out.Res.End, out.Res.RootDone, out.Races, el,
			out.Res.Stats.Yields, out.Res.Stats.Decisions, out.Res.Stats.Tasks, out.Res.Stats.MaxLive, time.Duration(out.Res.Stats.SimTime), out.Res.Fingerprint)
		for i, oc := range out.Outcomes {
			for j, o := range oc {
				fmt.Printf("   [%d.%d] %s %s\n", i, j, o.class(), trunc(o.Err, 100))
			}
		}
		if out.Res.Panic != nil {
			fmt.Printf("   PANIC on %s: %s\n", out.Res.Panic.Role, trunc(out.Res.Panic.Value, 200))
		}
		for _, l := range out.Res.Leftover {
			fmt.Printf("   left: %+v\n", l)
		}
		b, _ := json.Marshal(out.Res.Stats.Roles)
		fmt.Printf("   roles=%s probes=%d fired=%v racebuild=%v\n", b, out.Host.nProbe, out.Host.firedArr, simrt.RaceBuild)
		if len(args) > 1 {
			for _, l := range out.Res.Log {
				fmt.Println("     ", l)
			}
		}
	}
	os.Exit(0)
}

func trunc(s string, n int) string {
	if len(s) > n {
		return s[:n] + "..."
	}
	return s
}
