package main

import (
	"fmt"
	"strconv"
	"strings"
)

// ---------- abstract pipeline description (H1) ----------

type Stage struct {
	Op      string `json:"op"`
	Fn      int    `json:"fn,omitempty"`
	N       int    `json:"n,omitempty"`
	Cost    bool   `json:"cost,omitempty"`
	Probe   bool   `json:"probe,omitempty"`
	Fail    bool   `json:"fail,omitempty"`
	Boom    bool   `json:"boom,omitempty"`
	Ident   bool   `json:"ident,omitempty"`   // value-preserving variant (C08)
	TypeErr int    `json:"typeerr,omitempty"` // >0: elements with x%TypeErr==1 raise a language-level type error (member access on an int)
	Sparse  int    `json:"sparse,omitempty"`  // C08 accept: only elements <= Sparse pass (nothing after that)
	Deep    int    `json:"deep,omitempty"`    // >0: the closure recurses this many levels (a value stack that has to grow) before it answers
}

type Pipe struct {
	Src     string  `json:"src,omitempty"` // numbers (default) | arglist | hostlist
	Stages  []Stage `json:"stages,omitempty"`
	Term    Stage   `json:"term"`
	MU      []Stage `json:"mu,omitempty"` // consumers of a multiUse terminal
	Const   bool    `json:"const,omitempty"`
	Try     bool    `json:"try,omitempty"`
	N       int     `json:"n"`           // source size (argument a)
	B       int     `json:"b,omitempty"` // size of the second list (argument b)
	K       int     `json:"k,omitempty"` // decisive value (argument k)
	Consume int     `json:"consume,omitempty"`
	// Shared > 0: the stages before Split are bound to a name (let s=...) and the pipeline
	// continues with an expression that uses s more than once: both operands of a merge,
	// a closure run by parallel workers, multiUse consumers, +, cross
	Shared int `json:"shared,omitempty"`
	Split  int `json:"split,omitempty"`
	// Reuse != "": the list is bound to a name, consumed completely once by this consumer, and
	// only then handed to the terminal (a lazy list value used twice)
	Reuse string `json:"reuse,omitempty"`
}

const sharedCostID = 13

// sharedBody returns extra let-definitions and the expression that replaces the shared prefix.
func (p *Pipe) sharedBody() (lets, expr string) {
	switch p.Shared {
	case 1:
		return "", "s.accept(x->x%2=0).merge(s.accept(x->x%2!=0), (p,q)->p<q)"
	case 2:
		return "", "numbers(24).map(i->s.mapReduce(cost(" + strconv.Itoa(sharedCostID) + ",i),(u,x)->(u*31+x)%1000003))"
	case 3:
		return "", "s.map(x->x+1).merge(s, (p,q)->p<q)"
	case 4:
		// the consumers read their own list first: a consumer that lets the distributor wait for
		// more than 5 s (simulated) is timed out by design ("iterator timed out")
		return "let r=numbers(3).multiUse({p:l->l.sum()+s.reduce((u,v)->(u+v)%1000003), q:l->l.size()+s.map(x->x+1).reduce((u,v)->(u*3+v)%1000003)}); ", "[r.p,r.q,r.p+r.q]"
	case 5:
		return "", "(s.map(x->x*2)+s.accept(x->x%3=0))"
	case 6:
		return "", "s.top(6).cross(s, (p,q)->p*7+q)"
	// the same list is materialised (size, index, reverse, eval, =) by several goroutines at once
	case 7:
		return "let r=numbers(3).multiUse({p:l->l.sum()+s.size(), q:l->l.size()+s.reverse().first()+s[0], t:l->l.first()+s.eval().last()}); ", "[r.p,r.q,r.t]"
	case 8:
		// (only operations that cannot fail, whatever s contains: an element that fails behind the point where
		// an early-stopping consumer decides may or may not surface in parallel mode - not claimed by C06)
		return "", "numbers(24).map(i->cost(" + strconv.Itoa(sharedCostID) + ",i)+(if i<14 then i else s.size()*1000+s.reverse().size()*10+s.eval().top(1).size()+i))"
	case 9:
		return "", "numbers(5).map(i->s.size()+i).merge(numbers(5).map(i->s.eval().size()*3+s.reverse().top(1).size()+i), (p,q)->p<q)"
	// the same with the fault caught inside the closures: a shared list that fails to materialise
	// has to fail for every goroutine that asks, also for one that waited for another's attempt
	case 10:
		return "", "numbers(24).map(i->cost(" + strconv.Itoa(sharedCostID) + ",i)+(try s.size()*10+s[0] catch 0-1-i))"
	case 11:
		return "let r=numbers(3).multiUse({p:l->l.sum()+(try s.size() catch 0-5), q:l->l.size()+(try s.reverse().first() catch 0-7), t:l->l.first()+(try s.eval().last() catch 0-9)}); ", "[r.p,r.q,r.t]"
	default:
		return "", "numbers(5).map(i->(try s.size() catch 0-1)*100+i).merge(numbers(5).map(i->(try s[1]+s.order(x->x).last() catch 0-2)*100+i+1), (p,q)->p<q)"
	}
}

var lazyOps = []string{"map", "accept", "combine", "combine3", "combineN", "iir", "iirCombine", "number", "compact", "cross", "merge", "top", "skip", "fsm", "plus"}
var fullTerms = []string{"reduce", "mapReduce", "sum", "size", "string", "last", "minMax", "visit", "order", "orderLess", "groupByEqual", "lazy", "multiUse"}
var shortTerms = []string{"first", "present", "indexWhere", "contains", "single", "lazyk"}

func isShortTerm(op string) bool {
	for _, s := range shortTerms {
		if s == op {
			return true
		}
	}
	return false
}

// wrap renders W(x): probe, cost, boom, fail around variable v at stage id s.
func wrap(st Stage, s int, v string) string {
	e := v
	id := strconv.Itoa(s)
	if st.Probe {
		e = "probe(" + id + "," + e + ")"
	}
	if st.Cost {
		e = "cost(" + id + "," + e + ")"
	}
	if st.Boom {
		e = "boom(" + id + "," + e + ")"
	}
	if st.Fail {
		e = "fail(" + id + "," + e + ")"
	}
	if st.Deep > 0 {
		d := strconv.Itoa(st.Deep)
		e = "(dd(" + d + ")-" + d + "+" + e + ")"
	}
	if st.TypeErr > 0 {
		// only behind the first elements, so that a parallel stage has already switched to its workers
		e = "(if (" + v + ">20)&(" + v + "%" + strconv.Itoa(st.TypeErr) + "=1) then " + v + ".nokey else " + e + ")"
	}
	return e
}

// renderStage returns the method-call suffix for a lazy stage (or wraps prev for plus).
func renderStage(prev string, st Stage, s int, p *Pipe) (string, bool) {
	w := func(v string) string { return wrap(st, s, v) }
	n := st.N
	if n < 0 {
		n = -n
	}
	switch st.Op {
	case "map":
		if st.Ident {
			return prev + ".map(x->" + w("x") + ")", true
		}
		inner := "y*x"
		if st.Cost {
			inner = "cost(" + strconv.Itoa(s) + ",y)*x"
		}
		return prev + ".map(" + []string{"x->" + w("x") + "*3+1", "x->" + w("x") + "+7", "x->" + w("x") + "%1000", "x->" + w("x"),
			// nested pipelines inside the mapped closure (sequential, parallel, multiUse)
			"x->numbers(" + w("x") + "%5+2).map(y->y*x).sum()",
			"x->numbers(" + w("x") + "%4+13).map(y->" + inner + ").sum()",
			"x->[" + w("x") + ",x+1,x+2].map(y->y*2).reduce((p,q)->p+q)",
			"x->numbers(3).multiUse({s:l->l.sum(),n:l->l.size()}).s+" + w("x"),
			"x->" + w("x") + "*3+1", "x->" + w("x") + "+7", "x->" + w("x") + "%1000", "x->" + w("x")}[st.Fn%12] + ")", true
	case "accept":
		if st.Ident && st.Sparse > 0 {
			return prev + ".accept(x->" + w("x") + "<=" + strconv.Itoa(st.Sparse) + ")", true
		}
		if st.Ident {
			return prev + ".accept(x->" + w("x") + ">=0)", true
		}
		return prev + ".accept(" + []string{"x->" + w("x") + "%4!=0", "x->" + w("x") + "%2=0", "x->" + w("x") + ">=0"}[st.Fn%3] + ")", true
	case "combine":
		if st.Ident {
			return prev + ".combine((p,q)->" + w("q") + ")", true
		}
		return prev + ".combine(" + []string{"(p,q)->" + w("p") + "+q", "(p,q)->" + w("q") + "-p"}[st.Fn%2] + ")", true
	case "combine3":
		if st.Ident {
			return prev + ".combine3((p,q,r)->" + w("r") + ")", true
		}
		return prev + ".combine3((p,q,r)->" + w("p") + "+q*2+r)", true
	case "combineN":
		k := 2 + n%3
		if st.Ident {
			// the callback sees the ring buffer; the newest element is not at a fixed index, so
			// return the maximum, which for increasing sources is the newest element
			return prev + ".combineN(" + strconv.Itoa(k) + ", l->" + w("l.reduce((p,q)->max(p,q))") + ")", true
		}
		return prev + ".combineN(" + strconv.Itoa(k) + ", l->" + w("l[0]") + "+l[" + strconv.Itoa(k-1) + "])", true
	case "iir":
		if st.Ident {
			return prev + ".iir(x->" + w("x") + ", (x,l)->" + w("x") + ")", true
		}
		return prev + ".iir(x->" + w("x") + ", (x,l)->(" + w("x") + "+l)%1009)", true
	case "iirCombine":
		if st.Ident {
			return prev + ".iirCombine(x->" + w("x") + ", (i,j,l)->" + w("j") + ")", true
		}
		return prev + ".iirCombine(x->" + w("x") + ", (i,j,l)->(" + w("j") + "-i+l)%1009)", true
	case "number":
		if st.Ident {
			return prev + ".number((n,x)->" + w("x") + ")", true
		}
		return prev + ".number((n,x)->" + w("x") + "+n)", true
	case "compact":
		if st.Ident {
			// runs of st.N consecutive values count as equal: the first item of every run is delivered
			R := strconv.Itoa(max(st.N, 2))
			return prev + ".compact((p,q)->(p-p%" + R + ")=(q-q%" + R + "))", true
		}
		return prev + ".compact((p,q)->" + w("p") + "%3=q%3)", true
	case "cross":
		if st.Ident {
			return prev + ".cross(numbers(" + p.arg("b") + ").map(y->probe(15,y)), (p,q)->q)", true
		}
		other := []string{"[0,1]", "numbers(" + p.arg("b") + ")", "numbers(" + p.arg("b") + ").combine((u,v)->u+v)", "[0,1].number((n,y)->y+n)"}[st.Fn%4]
		return prev + ".cross(" + other + ", (p,q)->" + w("p") + "*2+q)", true
	case "merge":
		if st.Ident {
			// C08: the second operand is lazy too and carries its own probe (stage id 15)
			return prev + ".merge(numbers(" + p.arg("b") + ").map(y->probe(15,y)), (p,q)->p<q)", true
		}
		other := []string{"numbers(" + p.arg("b") + ").map(y->y*2+1)", "numbers(" + p.arg("b") + ")",
			"numbers(" + p.arg("b") + ").combine((u,v)->u+v)", "numbers(" + p.arg("b") + ").number((n,y)->y*2+n)",
			"numbers(" + p.arg("b") + ").iir(y->y, (y,l)->y+l%5)", "numbers(" + p.arg("b") + ").map(y->y+1).compact((u,v)->u%4=v%4)"}[st.Fn%6]
		return prev + ".merge(" + other + ", (p,q)->" + w("p") + "<q)", true
	case "top":
		return prev + ".top(" + strconv.Itoa(n) + ")", true
	case "skip":
		return prev + ".skip(" + strconv.Itoa(n) + ")", true
	case "fsm":
		return prev + ".fsm((s,x)->goto((s.state+" + w("x") + ")%3)).map(s->s.state)", true
	case "plus":
		if st.Ident {
			return "(" + prev + "+numbers(" + p.arg("b") + ").map(y->probe(15,y)))", true
		}
		return "(" + prev + "+numbers(" + strconv.Itoa(n%50) + "))", true
	}
	return prev, false
}

func renderTerm(prev string, t Stage, s int, p *Pipe) (string, bool) {
	w := func(v string) string { return wrap(t, s, v) }
	k := p.arg("k")
	switch t.Op {
	case "reduce":
		return prev + ".reduce((p,q)->(" + w("p") + "+q)%1000003)", true
	case "mapReduce":
		return prev + ".mapReduce(0,(s,x)->(s+" + w("x") + ")%1000003)", true
	case "sum":
		return prev + ".sum()", true
	case "size":
		return prev + ".size()", true
	case "string":
		return prev + ".string()", true
	case "first":
		return prev + ".first()", true
	case "last":
		return prev + ".last()", true
	case "single":
		return prev + ".single()", true
	case "minMax":
		return prev + ".minMax(x->" + w("x") + ")", true
	case "visit":
		return prev + ".visit(0,(v,x)->(v*31+" + w("x") + ")%1000003)", true
	case "order":
		return prev + ".order(x->0-" + w("x") + ")", true
	case "orderLess":
		return prev + ".orderLess((p,q)->" + w("p") + ">q)", true
	case "groupByEqual":
		return prev + ".groupByEqual(x->" + w("x") + "%3)", true
	case "present":
		return prev + ".present(x->" + w("x") + "=" + k + ")", true
	case "indexWhere":
		return prev + ".indexWhere(x->" + w("x") + ">=" + k + ")", true
	case "contains":
		switch t.N % 5 {
		case 1: // a list of items to look for
			return "([" + k + "] ~ " + prev + ")", true
		case 3: // nothing to look for: decided by the first look
			return "([] ~ " + prev + ")", true
		case 4: // the same, known only at run time
			return "(numbers(0).map(y->y) ~ " + prev + ")", true
		}
		return "(" + k + " ~ " + prev + ")", true
	case "topsize":
		return prev + ".top(" + strconv.Itoa(t.N) + ").size()", true
	case "lazy", "lazyk":
		return prev, true
	case "listeq":
		// comparison of two lazy lists; t.N selects the shape. The pipeline text is used
		// twice where one operand has to be a proper prefix (or extension) of the other.
		j := strconv.Itoa(t.N / 8 % 40)
		switch t.N % 8 {
		case 0:
			return "(" + prev + ".top(" + j + ") = " + prev + ")", true
		case 1:
			return "(" + prev + " = " + prev + ".top(" + j + "))", true
		case 2:
			return "(" + prev + ".top(" + j + ") != " + prev + ")", true
		case 3:
			return "(" + prev + " = " + prev + ")", true
		case 4:
			return "(numbers(" + j + ").accept(y->y>=0) = " + prev + ")", true
		case 5:
			return "(" + prev + " != numbers(" + k + ").map(y->y))", true
		case 6:
			return "([] = " + prev + ")", true
		default:
			return "(" + prev + ".skip(" + j + ") = " + prev + ".skip(" + j + ").accept(y->true))", true
		}
	}
	return prev, false
}

func (p *Pipe) arg(name string) string {
	if !p.Const {
		return name
	}
	switch name {
	case "a":
		return strconv.Itoa(p.N)
	case "b":
		return strconv.Itoa(p.B)
	case "k":
		return strconv.Itoa(p.K)
	}
	return name
}

// render produces the program text. Stage ids: i for stage i, len(Stages) for the
// terminal, len(Stages)+1+j for multiUse consumer j.
func (p *Pipe) render() (string, error) {
	var cur string
	switch p.Src {
	case "", "numbers":
		cur = "numbers(" + p.arg("a") + ")"
	case "arglist", "hostlist":
		cur = "src"
	default:
		return "", fmt.Errorf("unknown source %q", p.Src)
	}
	if len(p.Stages) > 10 {
		return "", fmt.Errorf("too many stages")
	}
	lets := ""
	deep := p.Term.Deep > 0
	for _, st := range p.Stages {
		deep = deep || st.Deep > 0
	}
	for _, st := range p.MU {
		deep = deep || st.Deep > 0
	}
	if deep {
		lets = "func dd(n) if n=0 then 0 else 1+dd(n-1); "
	}
	shared := p.Shared > 0
	for i, st := range p.Stages {
		if shared && i == p.Split {
			l, e := p.sharedBody()
			lets, cur, shared = lets+"let s="+cur+"; "+l, e, false
		}
		var ok bool
		cur, ok = renderStage(cur, st, i, p)
		if !ok {
			return "", fmt.Errorf("unknown stage %q", st.Op)
		}
	}
	if shared {
		l, e := p.sharedBody()
		lets, cur = lets+"let s="+cur+"; "+l, e
	}
	ts := len(p.Stages)
	if p.Reuse != "" {
		full := map[string]string{"reduce": "reduce((p,q)->(p+q)%1000003)", "sum": "sum()", "minMax": "minMax(x->x)", "presentfalse": "present(x->x<0)",
			"size": "size()", "last": "last()", "multiUse": "multiUse({u:t->t.sum(), v:t->t.size()})", "string": "string()", "mapReduce": "mapReduce(0,(s,x)->(s+x)%1000003)"}[p.Reuse]
		if full == "" {
			return "", fmt.Errorf("unknown reuse consumer %q", p.Reuse)
		}
		lets += "let l=" + cur + "; let w=l." + full + "; "
		cur = "l"
	}
	if p.Term.Op == "multiUse" {
		if len(p.MU) == 0 || len(p.MU) > 4 {
			return "", fmt.Errorf("multiUse needs 1..4 consumers")
		}
		var parts []string
		for j, c := range p.MU {
			var body string
			var ok bool
			if c.Op == "noread" || c.Op == "notfunc" || c.Op == "arity2" || c.Op == "twice" || c.Op == "twice-short" || c.Op == "lazyret" || c.Op == "unopened" {
				body, ok = "7", true
			} else if c.Op == "topsize" {
				body, ok = renderTerm("l", c, ts+1+j, p)
			} else {
				body, ok = renderTerm("l", c, ts+1+j, p)
			}
			if !ok || c.Op == "lazy" || c.Op == "lazyk" || c.Op == "multiUse" {
				return "", fmt.Errorf("bad multiUse consumer %q", c.Op)
			}
			switch c.Op {
			case "twice": // the copied list is used twice: the second use is an error by design
				parts = append(parts, "c"+strconv.Itoa(j)+": l->l.reduce((p,q)->p+q)+l.reduce((p,q)->p+q)")
				continue
			case "twice-short":
				parts = append(parts, "c"+strconv.Itoa(j)+": l->l.first()+l.first()")
				continue
			case "lazyret": // the consumer hands back a lazy list built on its copy: consumed after multiUse returned
				parts = append(parts, "c"+strconv.Itoa(j)+": l->l.map(x->x+1)"+[]string{"", ".top(2)", ".accept(x->x%2=0)"}[c.N%3])
				continue
			case "unopened": // the consumer hands its list to a stage that asks for it and never iterates it
				parts = append(parts, "c"+strconv.Itoa(j)+": l->"+[]string{"([0]+l).first()", "numbers(0).cross(l,(p,q)->q).size()", "([0,1,2]+l).top(2).size()", "[].merge(l,(p,q)->p<q).top(0).size()"}[c.N%4])
				continue
			case "notfunc":
				parts = append(parts, "c"+strconv.Itoa(j)+": 3")
				continue
			case "arity2":
				parts = append(parts, "c"+strconv.Itoa(j)+": (x,y)->x")
				continue
			}
			parts = append(parts, "c"+strconv.Itoa(j)+": l->"+body)
		}
		cur = cur + ".multiUse({" + strings.Join(parts, ", ") + "})"
	} else {
		var ok bool
		cur, ok = renderTerm(cur, p.Term, ts, p)
		if !ok {
			return "", fmt.Errorf("unknown terminal %q", p.Term.Op)
		}
	}
	if p.Reuse != "" {
		cur = "if [w].size()=0 then 0 else (" + cur + ")"
	}
	if p.Try {
		cur = "try " + cur + " catch -77"
	}
	return lets + cur, nil
}

func (p *Pipe) argNames() []string {
	n := []string{"a", "b", "k"}
	if p.Src == "arglist" || p.Src == "hostlist" {
		n = append(n, "src")
	}
	return n
}

func (p *Pipe) args() []Arg {
	a := []Arg{{K: "int", I: p.N}, {K: "int", I: p.B}, {K: "int", I: p.K}}
	switch p.Src {
	case "arglist":
		l := make([]int, p.N)
		for i := range l {
			l[i] = i
		}
		a = append(a, Arg{K: "ints", L: l})
	case "hostlist":
		a = append(a, Arg{K: "nums", I: p.N})
	}
	return a
}

// script renders the pipeline into a two-op script (generate, evaluate).
func (p *Pipe) script(host HostTables) (*Script, error) {
	text, err := p.render()
	if err != nil {
		return nil, err
	}
	consume := -1
	if p.Term.Op == "lazyk" {
		consume = p.Consume
		if consume < 0 {
			consume = 0
		}
	}
	return &Script{
		Setup:   []Op{{Kind: "gen", Text: text, ArgNames: p.argNames()}},
		Clients: [][]Op{{{Kind: "eval", Args: p.args(), Consume: consume}}},
		Host:    host, NFn: 1,
	}, nil
}

// closure-calling stages (those whose callback can carry cost/probe/fail wrappers)
func hasClosure(op string) bool {
	switch op {
	case "top", "skip", "plus", "sum", "size", "string", "first", "last", "single", "lazy", "lazyk", "contains", "topsize", "noread", "notfunc", "arity2", "twice", "twice-short", "lazyret", "unopened", "multiUse":
		return false
	}
	return true
}

// usesCallerStack: stages/terminals whose callback pushes on the consumer's stack
func usesCallerStack(op string) bool {
	switch op {
	case "map", "accept":
		return false
	}
	return hasClosure(op)
}

func genStage(r *rng, ops []string) Stage {
	st := Stage{Op: pick(r, ops...), Fn: r.intn(12)}
	switch st.Op {
	case "top":
		st.N = pick(r, 0, 1, 5, 13, 30, 100, 500)
	case "skip":
		st.N = pick(r, 0, 1, 3, 12, 40)
	case "combineN":
		st.N = r.intn(3)
	case "plus":
		st.N = r.intn(50)
	}
	return st
}
