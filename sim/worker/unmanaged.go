package main

import (
	"runtime"
	"sort"
	"strings"
	"time"
)

// Goroutines the simulator does not manage: library code can get a goroutine from
// the runtime without a go statement (iter.Pull coroutines, time.AfterFunc, ...).
// The rewritten go statements are tasks of the scheduler and are all gone when
// simrt.Run returns (teardown); whatever is still alive then and has frames of the
// library on its stack was started on behalf of the run and has been left behind.

var goFloor int                        // goroutine count at the last clean look
var unmanagedKnown = map[string]bool{} // goroutine ids already reported (they stay forever)

type unmanagedG struct {
	ID    string
	State string
	Fn    string // bottom-most library frame: where the goroutine entered the library
	Top   string // top-most library frame: where it is parked
}

func inScopeFrame(l string) bool {
	return strings.HasPrefix(l, "github.com/hneemann/parser2") || strings.HasPrefix(l, "github.com/hneemann/iterator")
}

func shortFn(l string) string {
	if i := strings.LastIndex(l, "("); i > 0 {
		l = l[:i]
	}
	l = strings.TrimPrefix(l, "github.com/hneemann/")
	l = strings.TrimPrefix(l, "parser2/")
	return l
}

func dumpInScope() map[string]unmanagedG {
	buf := make([]byte, 1<<20)
	for {
		n := runtime.Stack(buf, true)
		if n < len(buf) {
			buf = buf[:n]
			break
		}
		buf = make([]byte, 2*len(buf))
	}
	res := map[string]unmanagedG{}
	for _, blk := range strings.Split(string(buf), "\n\n") {
		lines := strings.Split(blk, "\n")
		if len(lines) == 0 || !strings.HasPrefix(lines[0], "goroutine ") {
			continue
		}
		hdr := strings.Fields(lines[0])
		if len(hdr) < 3 {
			continue
		}
		g := unmanagedG{ID: hdr[1], State: strings.Trim(strings.Join(hdr[2:], " "), "[]:")}
		if strings.HasPrefix(g.State, "running") {
			continue // the harness goroutine taking the dump
		}
		for _, l := range lines[1:] {
			if strings.HasPrefix(l, "\t") || strings.HasPrefix(l, "created by ") {
				continue
			}
			if inScopeFrame(l) {
				if g.Top == "" {
					g.Top = shortFn(l)
				}
				g.Fn = shortFn(l)
			}
		}
		if g.Fn != "" && !unmanagedKnown[g.ID] {
			res[g.ID] = g
		}
	}
	return res
}

// unmanagedAfterRun is called right after simrt.Run returned. Task goroutines that
// were torn down may still be on their way out for a moment: only goroutines that
// stay through every look of a settling period are reported.
func unmanagedAfterRun() []unmanagedG {
	n := runtime.NumGoroutine()
	if n <= goFloor {
		goFloor = n
		return nil
	}
	cand := dumpInScope()
	for look := 0; len(cand) > 0 && look < 25; look++ {
		if look < 5 {
			runtime.Gosched()
		} else {
			time.Sleep(2 * time.Millisecond)
		}
		next := dumpInScope()
		for id := range cand {
			if _, ok := next[id]; !ok {
				delete(cand, id)
			}
		}
	}
	var out []unmanagedG
	for id, g := range cand {
		unmanagedKnown[id] = true
		out = append(out, g)
	}
	sort.Slice(out, func(i, j int) bool { return out[i].Fn+out[i].ID < out[j].Fn+out[j].ID })
	if len(out) == 0 {
		goFloor = runtime.NumGoroutine()
	} else {
		goFloor = 0 // look again next time
	}
	return out
}
