package main

import (
	"bytes"
	"fmt"
	"strconv"
	"strings"
)

func genSim(r *rng, par bool, allowStall bool) (SimCfg, []StallF) {
	s := SimCfg{SchedSeed: r.u64() >> 1}
	if par {
		s.NumCPU = pick(r, 2, 2, 3, 4, 4, 8, 16)
	} else {
		s.NumCPU = pick(r, 1, 2, 4)
	}
	if r.chance(0.4) {
		s.GoMaxProcs = pick(r, 1, 1, 2, 4, 16)
	}
	switch x := r.intn(100); {
	case x < 8:
		s.Policy = "canonical"
	case x < 60:
		s.Policy = "random"
		s.PreemptP = pick(r, 1.0/8, 1.0/32, 1.0/128, 1.0/512, 1.0/2048)
	default:
		s.Policy = "pct"
		s.PCTDepth = r.intn(4)
	}
	var st []StallF
	if allowStall && r.chance(0.25) {
		for k := r.rangeInt(1, 2); k > 0; k-- {
			st = append(st, StallF{Frac: float64(r.intn(1000)) / 1000, Dur: pick(r, int64(50_000), 1_000_000, 20_000_000)})
		}
	}
	return s, st
}

func genCase(prop, tier string, base uint64, i uint64) *Case {
	seed := mixSeed(base, i)
	r := newRng(seed)
	var c *Case
	switch prop {
	case "C04":
		c = genC04(r, tier)
	case "C05":
		if i >= boundaryEnumBase {
			c = genC05BoundaryEnum(i - boundaryEnumBase)
		} else {
			c = genC05(r, tier)
		}
	case "C06":
		c = genC06(r, tier)
	case "C08":
		c = genC08(r, tier)
	case "C12":
		c = genC12(r, tier)
	case "C09":
		c = genC09(r, tier)
	case "C10":
		c = genC10(r, tier, 1)
	case "C11":
		c = genC10(r, tier, 0)
	default:
		c = &Case{}
	}
	c.Prop = prop
	c.ID = fmt.Sprintf("%d:%d", base, i)
	return c
}

// ---------- C04 ----------

func genC04(r *rng, tier string) *Case {
	kind := pick(r, "value", "value", "value", "value", "value", "value", "float", "float", "bool")
	maxLen := 1200
	if tier == "thorough" && r.chance(0.02) {
		maxLen = 65536
	} else if tier == "thorough" && r.chance(0.2) {
		maxLen = 8000
	}
	text, class := genParseText(r, kind, maxLen)
	if len(text) > 65536 {
		text = text[:65536]
	}
	g := GenCfg{Kind: kind, Comments: r.chance(0.5), Comfort: r.chance(0.3), NoOpt: r.chance(0.7)}
	if r.chance(0.3) {
		g.KW = r.rangeInt(1, 4)
		// let the text use the words and symbols of that configuration now and then
		if len(text) > 0 && len(text) < maxLen-64 {
			for k := r.rangeInt(0, 3); k > 0; k-- {
				i := r.intn(len(text) + 1)
				w := pick(r, " and ", " or ", " mod ", " is ", " plus ", " x ", " less ", "not ", " then ", "<=>", "**", "->>", "=>", "..", "&&", "|||", "<-", "-->", "!==", ":=", " in ", " e0 ")
				text = append(text[:i:i], append([]byte(w), text[i:]...)...)
			}
		}
	}
	sim, _ := genSim(r, false, false)
	c := &Case{Class: kind + "/" + class, Sim: sim,
		Script: &Script{Gens: []GenCfg{g}, Setup: []Op{{Kind: "gen", TextB: text, ArgNames: []string{"a", "b"}, Entry: pick(r, 0, 0, 0, 0, 1, 2, 3)}}, NFn: 1}}
	// The linear bound applies with the optimizer off, and also with it on when the text has no call,
	// closure or function definition: folding operators over literals costs no more than parsing them.
	c.X.Bound = g.NoOpt || !(bytes.Contains(text, []byte("(")) || bytes.Contains(text, []byte("->")) || bytes.Contains(text, []byte("func")))
	return c
}

// ---------- cost profiles ----------

func genCosts(r *rng, nStages int, costStages []int, n int) ([]CostProf, string) {
	costs := make([]CostProf, nStages)
	if len(costStages) == 0 {
		return costs, "none"
	}
	base := pick(r, int64(250_000), 300_000, 400_000, 1_000_000)
	kind := pick(r, "zero", "uniform", "uniform", "uniform", "uniform", "uniform", "cheap-then-exp", "cheap-then-exp", "exp-then-cheap", "heavy-tail", "per-stage")
	for _, s := range costStages {
		switch kind {
		case "zero":
		case "uniform":
			costs[s] = CostProf{Base: base}
		case "cheap-then-exp":
			k := r.rangeInt(0, 40)
			costs[s] = CostProf{Base: 0, Mid: base, From: k, To: 1 << 30}
		case "exp-then-cheap":
			k := r.rangeInt(1, 40)
			costs[s] = CostProf{Base: pick(r, int64(0), 1000), Mid: base, From: 0, To: k}
		case "heavy-tail":
			k := r.rangeInt(0, n+1)
			costs[s] = CostProf{Base: base, Mid: base * pick(r, int64(1000), 10000, 100000), From: k, To: k + 1}
		case "per-stage":
			costs[s] = CostProf{Base: pick(r, int64(0), 50_000, 250_000, 600_000)}
		}
	}
	return costs, kind
}

// ---------- C06 ----------

// forceShared makes genC06 produce a pipeline with a shared let-bound prefix (used by genC05)
var forceShared bool

func genPipeStages(r *rng, maxStages int, ops []string) []Stage {
	n := r.rangeInt(0, maxStages)
	st := make([]Stage, 0, n)
	for len(st) < n {
		st = append(st, genStage(r, ops))
	}
	return st
}

func genC06(r *rng, tier string) *Case {
	p := &Pipe{}
	sizes := []int{0, 1, 2, 5, 11, 12, 13, 14, 20, 30, 30, 60, 100, 100, 200, 300}
	if tier == "thorough" {
		sizes = append(sizes, 500, 1000, 2000)
	}
	p.N = pick(r, sizes...)
	p.B = pick(r, 0, 1, 3, 10, 30)
	p.Src = pick(r, "numbers", "numbers", "numbers", "arglist", "hostlist")
	p.Stages = genPipeStages(r, pick(r, 1, 2, 2, 3, 3, 4, 6), lazyOps)
	if r.chance(0.7) {
		// make sure there is a stage that can switch to parallel execution
		has := false
		for _, st := range p.Stages {
			if st.Op == "map" || st.Op == "accept" {
				has = true
			}
		}
		if !has {
			st := Stage{Op: pick(r, "map", "map", "accept"), Fn: r.intn(4)}
			if len(p.Stages) >= 6 {
				p.Stages[r.intn(len(p.Stages))] = st
			} else {
				at := r.intn(len(p.Stages) + 1)
				p.Stages = append(p.Stages[:at:at], append([]Stage{st}, p.Stages[at:]...)...)
			}
		}
	}
	// keep list growth bounded
	crosses := 0
	for i := range p.Stages {
		if p.Stages[i].Op == "cross" {
			crosses++
			if crosses > 1 || p.N > 300 {
				p.Stages[i].Op = "map"
			}
		}
	}
	short := r.chance(0.15)
	if short {
		p.Term = Stage{Op: pick(r, "first", "present", "indexWhere", "contains", "single", "lazyk", "topsize"), N: pick(r, 1, 3, 20)}
		p.Consume = pick(r, 1, 3, 15)
	} else {
		p.Term = Stage{Op: pick(r, fullTerms...)}
		if r.chance(0.05) {
			p.Term = Stage{Op: "listeq", N: r.intn(320)}
		}
	}
	if p.Term.Op == "multiUse" {
		for k := r.rangeInt(1, 3); k > 0; k-- {
			p.MU = append(p.MU, Stage{Op: pick(r, "sum", "size", "reduce", "last", "string", "mapReduce", "minMax", "first", "topsize", "lazyret"), N: pick(r, 1, 5, 30)})
		}
	}
	p.K = pick(r, 0, 3, 40, 500, 100000)
	if r.chance(0.1) {
		// one closure that recurses deeper than the initial size of a value stack (50 slots) before it answers
		d := pick(r, 44, 60, 60, 120)
		var cands []int
		for i := range p.Stages {
			if hasClosure(p.Stages[i].Op) {
				cands = append(cands, i)
			}
		}
		switch {
		case len(p.MU) > 0 && r.chance(0.7):
			j := r.intn(len(p.MU))
			if p.MU[j].Op == "sum" || p.MU[j].Op == "size" || p.MU[j].Op == "last" || p.MU[j].Op == "string" || p.MU[j].Op == "first" || p.MU[j].Op == "topsize" || p.MU[j].Op == "lazyret" {
				p.MU[j].Op = pick(r, "reduce", "mapReduce", "minMax")
			}
			p.MU[j].Deep = d
		case hasClosure(p.Term.Op) && r.chance(0.5):
			p.Term.Deep = d
		case len(cands) > 0:
			p.Stages[pick(r, cands...)].Deep = d
		}
		// every call of such a closure costs thousands of yields, and sorting calls its key closure
		// n log n times: keep the list short enough for the yield budget of a legitimate run
		if p.N > 300 {
			p.N = pick(r, 30, 100, 300)
		}
		if p.Term.Deep > 60 && (p.Term.Op == "order" || p.Term.Op == "orderLess") {
			p.Term.Deep = 60
		}
	}
	// wrappers
	var costStages []int
	for i := range p.Stages {
		if hasClosure(p.Stages[i].Op) && (p.Stages[i].Op == "map" || p.Stages[i].Op == "accept") && r.chance(0.75) {
			p.Stages[i].Cost = true
			costStages = append(costStages, i)
		} else if hasClosure(p.Stages[i].Op) && r.chance(0.15) {
			p.Stages[i].Cost = true
			costStages = append(costStages, i)
		}
	}
	ts := len(p.Stages)
	if hasClosure(p.Term.Op) && r.chance(0.2) {
		p.Term.Cost = true
		costStages = append(costStages, ts)
	}
	nIds := ts + 1 + len(p.MU)
	costs, ck := genCosts(r, nIds, costStages, p.N)
	if len(p.Stages) > 0 && p.Src == "numbers" && (forceShared || r.chance(0.15)) {
		// a let-bound prefix used by several goroutines of the same evaluation at once
		p.Shared = r.rangeInt(1, 12)
		p.Split = r.rangeInt(1, len(p.Stages))
		if p.N > 300 {
			p.N = pick(r, 13, 30, 100, 300)
		}
		if p.Shared == 2 || p.Shared == 6 || p.Shared == 8 || p.Shared == 10 {
			// the shared list is iterated once per outer element: keep the product small
			if p.N > 30 {
				p.N = pick(r, 13, 20, 30)
			}
			for i := range p.Stages[:p.Split] {
				if p.Stages[i].Op == "cross" {
					p.Stages[i].Op = "map"
				}
				if p.Stages[i].Op == "map" {
					p.Stages[i].Fn %= 4 // no nested pipelines inside the shared list's closures
				}
			}
		}
		if p.Shared == 2 || p.Shared == 8 || p.Shared == 10 {
			for len(costs) <= sharedCostID {
				costs = append(costs, CostProf{})
			}
			costs[sharedCostID] = CostProf{Base: pick(r, int64(0), 300_000, 300_000, 400_000)}
		}
		ck += "/shared"
	}
	host := HostTables{Costs: costs}
	full := !short && p.Term.Op != "listeq" // a comparison may be decided without reading everything
	for _, s := range p.Stages {
		if s.Op == "top" {
			full = false
		}
	}
	for _, m := range p.MU {
		if m.Op == "first" || m.Op == "topsize" || m.Op == "lazyret" {
			full = false
		}
	}
	hasFail := false
	if p.Shared >= 10 && r.chance(0.7) {
		// the shared list fails while it is materialised (caught inside the closures that use it)
		var cands []int
		for i := range p.Stages[:p.Split] {
			if hasClosure(p.Stages[i].Op) {
				cands = append(cands, i)
			}
		}
		if len(cands) > 0 {
			s := pick(r, cands...)
			p.Stages[s].Fail = true
			host.Fails = make([]Match, max(nIds, len(costs)))
			host.Fails[s] = Match{Kind: "ge", A: r.rangeInt(0, p.N)}
			hasFail = true
		}
	}
	if full && !hasFail && r.chance(0.15) {
		// a failing element somewhere in a closure-calling stage
		var cands []int
		for i := range p.Stages {
			if hasClosure(p.Stages[i].Op) {
				cands = append(cands, i)
			}
		}
		if len(cands) > 0 {
			s := pick(r, cands...)
			p.Stages[s].Fail = true
			host.Fails = make([]Match, nIds)
			if r.chance(0.5) {
				host.Fails[s] = Match{Kind: "mod", A: pick(r, 7, 13, 50, 97), B: r.intn(7)}
			} else {
				host.Fails[s] = Match{Kind: "ge", A: r.rangeInt(0, 3*p.N+5)}
			}
			hasFail = true
		}
	}
	if full && !hasFail && r.chance(0.2) {
		// an element that fails with a Go panic (host function) instead of an error, in any closure-calling stage
		var cands []int
		for i := range p.Stages {
			if hasClosure(p.Stages[i].Op) {
				cands = append(cands, i)
			}
		}
		if len(cands) > 0 {
			s := pick(r, cands...)
			p.Stages[s].Boom = true
			host.Booms = make([]Match, max(nIds, len(costs)))
			if r.chance(0.5) {
				host.Booms[s] = Match{Kind: "mod", A: pick(r, 7, 13, 50, 97), B: r.intn(7)}
			} else {
				host.Booms[s] = Match{Kind: "ge", A: r.rangeInt(0, 3*p.N+5)}
			}
			hasFail = true
		}
	}
	if full && !hasFail && r.chance(0.12) {
		// language-level type errors (not host errors) on many elements: several workers fail at once
		var cands []int
		for i := range p.Stages {
			if hasClosure(p.Stages[i].Op) && p.Stages[i].Op != "fsm" && p.Stages[i].Op != "combineN" {
				cands = append(cands, i)
			}
		}
		if len(cands) > 0 {
			p.Stages[pick(r, cands...)].TypeErr = pick(r, 2, 3, 5, 17)
			hasFail = true
		}
	}
	sim, stalls := genSim(r, true, true)
	c := &Case{Class: "cost=" + ck, Sim: sim, StallF: stalls, Pipe: p, Host: host}
	c.X.Full = full
	c.X.HasFail = hasFail
	return c
}

// ---------- C05 ----------

// fault expressions over variable x that misbehave exactly when x == K (or x >= K).
func faultExpr(kind, x, k string) string {
	switch kind {
	case "mod0":
		return x + "%(" + x + "-" + k + ")"
	case "shl-neg":
		return "(1<<(" + k + "-" + x + "-1))"
	case "shr-neg":
		return "(1>>(" + k + "-" + x + "-1))"
	case "neq-incomparable":
		return "(if (if " + x + "=" + k + " then \"s\" else 1)!=1 then 0 else " + x + ")"
	case "switch-incomparable":
		return "(switch (if " + x + "=" + k + " then \"s\" else 1) case 1: " + x + " default 0)"
	case "contains-incomparable":
		return "(if (if " + x + "=" + k + " then \"s\" else 1) ~ [1,2] then " + x + " else 0)"
	case "host-error":
		return "fail(9," + x + ")"
	case "host-panic":
		return "boom(9," + x + ")"
	case "throw":
		return "(if " + x + "=" + k + " then throw(\"boom\") else " + x + ")"
	case "index":
		return "[" + x + "," + x + "][" + x + "-" + k + "+2]"
	case "arity":
		return "(if " + x + "=" + k + " then (y,z)->y else y->y)(" + x + ")"
	case "not-a-function":
		return "(if " + x + "=" + k + " then 1 else y->y)(" + x + ")"
	case "type-error":
		return "(" + x + "+(if " + x + "=" + k + " then {a:1} else 1))"
	case "map-key":
		return "(if " + x + "=" + k + " then {a:1} else {b:" + x + "}).b"
	case "neg-index":
		return "[" + x + "][" + k + "-" + x + "-1+(" + x + "-" + k + ")*2+1]"
	case "method-missing":
		return "(if " + x + "=" + k + " then \"s\" else [" + x + "]).size()"
	case "runaway-slots":
		return "(if " + x + "=" + k + " then rs(0) else " + x + ")"
	case "runaway-fresh":
		return "(if " + x + "=" + k + " then rf(0) else " + x + ")"
	}
	return x
}

var c05Faults = []string{"mod0", "shl-neg", "shr-neg", "neq-incomparable", "switch-incomparable", "contains-incomparable", "host-error", "host-panic", "throw",
	"index", "arity", "not-a-function", "type-error", "map-key", "method-missing", "runaway-slots"}
var c05Ctx = []string{"top", "closure", "seq-map", "par-map", "seq-accept", "par-accept", "collector-map", "collector-reduce", "merge-operand", "merge-operand2", "merge-less",
	"mu-source", "mu-consumer", "mu-consumer-par", "nested-closure", "order", "iir",
	"mu-consumer-lazy-combine", "mu-consumer-lazy-iir", "mu-consumer-lazy-number", "mu-consumer-lazy-map", "mu-consumer-map-of-lists", "mu-source-par",
	"merge-operand-combine", "par-upstream-combine", "par-upstream-number", "collector-iir", "collector-accept", "collector-cross", "seq-cross", "seq-compact", "seq-fsm",
	"seq-combine3", "seq-number", "par-map-nested", "groupby", "minmax", "visit", "present", "index-where",
	// the consumer stops early: the fault is raised on a goroutine that is still finishing its item while
	// (or after) the evaluation returns - the outcome may be a value or an error, the process has to live
	"merge-operand-number-early", "merge-operand2-iir-early", "merge-operand-combine-early", "mu-source-early", "par-upstream-number-early",
	// a list that declares an enormous size and fails at one of its first elements while it is materialised:
	// nothing may be done in proportion to the declared size before the elements exist
	"huge-sized-map-size", "huge-sized-number-eval", "huge-sized-iir-reverse"}

// boundary operands for operators, static functions and methods: "all (operator, operand-type
// pair, boundary value) combinations". The oracle for this class is only: no crash, no hang.
var boundaryArgs = []Arg{
	{K: "int", I: 0}, {K: "int", I: 1}, {K: "int", I: -1}, {K: "int", I: 2}, {K: "int", I: 3}, {K: "int", I: 7}, {K: "int", I: 62}, {K: "int", I: 63}, {K: "int", I: 64}, {K: "int", I: 65},
	{K: "int", I: -63}, {K: "int", I: -64}, {K: "int", I: 1 << 31}, {K: "int", I: 1 << 32}, {K: "int", I: 1 << 53}, {K: "int", I: 1 << 62},
	{K: "int", I: 9223372036854775807}, {K: "int", I: -9223372036854775808}, {K: "int", I: -9223372036854775807}, {K: "int", I: 9223372036854775806},
	{K: "float", F: 0}, {K: "float", S: "-0"}, {K: "float", F: 0.5}, {K: "float", F: -1.5}, {K: "float", F: 1e308}, {K: "float", F: -1e308}, {K: "float", F: 1e-320},
	{K: "float", S: "inf"}, {K: "float", S: "-inf"}, {K: "float", S: "nan"}, {K: "float", F: 9223372036854775808}, {K: "float", F: -9223372036854775808}, {K: "float", F: 1e30},
	{K: "str", S: ""}, {K: "str", S: "a"}, {K: "str", S: "%d"}, {K: "str", S: "%s%s%s%v"}, {K: "str", S: "abc"}, {K: "str", S: "\u00e9\u20ac"}, {K: "str", S: "%!(EXTRA"}, {K: "str", S: "12"}, {K: "str", S: "1e999"},
	{K: "bool", B: true}, {K: "bool", B: false}, {K: "ints", L: []int{}}, {K: "ints", L: []int{1}}, {K: "ints", L: []int{1, 2, 3}}, {K: "map", L: []int{1}}, {K: "nums", I: 0}, {K: "nums", I: 4},
}

var boundaryExprs = []string{
	"x+y", "x-y", "x*y", "x/y", "x%y", "x^y", "x<<y", "x>>y", "x&y", "x|y", "x=y", "x!=y", "x<y", "x>y", "x<=y", "x>=y", "x~y", "-x", "!x",
	"abs(x)", "sqr(x)", "sqrt(x)", "ln(x)", "log10(x)", "exp(x)", "sin(x)", "cos(x)", "tan(x)", "asin(x)", "acos(x)", "atan(x)", "floor(x)", "ceil(x)", "trunc(x)", "round(x)", "int(x)", "float(x)",
	"string(x)", "isInt(x)", "isFloat(x)", "sign(x)", "goto(x)", "random(x)", "throw(x)", "binAnd(x,y)", "binOr(x,y)", "min(x,y)", "max(x,y)", "min(x)", "max(x,y,x)",
	"numbers(x).top(2).size()", "numbers(x).first()", "sprintf(\"%d %v\", x, y)", "sprintf(x, y)", "sprintf(x)", "sprintf(\"%s %d %f\", x)",
	"[1,2,3].top(x).size()", "[1,2,3].skip(x).size()", "[1,2,3].set(x,y).size()", "[1,2,3][x]", "[1,2,3].combineN(x%100, l->l.size()).size()", "[1,2,3].append(x).size()",
	"numbers(6).top(x).skip(y).size()", "numbers(6).skip(x).top(y).size()", "numbers(6).combineN(x%100, l->l[y]).size()",
	"\"abcdef\".cut(x,y)", "\"abcdef\".split(x)", "\"abc\".indexOf(x)", "\"abc\".contains(x)", "\"abc\".replace(x,y)", "\"abc\".behind(x)", "\"a,b,c\".behindList(x)", "\"abc\"+x",
	"{a:1}.get(x)", "{a:1}.put(x,y).size()", "{a:1}.isAvail(x)", "{a:1}+x", "{a:1}.replace(e->x)", "{a:1}.map((k,e)->x).size()",
	"x.size()", "x.string()", "x.len()", "x[y]", "x.a", "x(y)", "x.map(e->e).size()", "x.toInt()", "x.toFloat()", "x.first()", "x.list()", "x.k0", "x.eval()",
	"numbers(5).binning(x,y,3,e->e,e->1).size()", "numbers(5).binning(0,1,x%100,e->e,e->1).size()", "numbers(5).binning(0,x,3,e->e*y,e->1).size()", "numbers(5).binning2d(0,1,x%50,0,1,y%50,e->e,e->e,e->1).size()",
	"numbers(5).movingWindow(e->e*x).size()", "numbers(4).order(e->e*x).size()", "numbers(4).map(e->e^x).sum()", "numbers(4).map(e->x^e).sum()", "numbers(4).iir(e->x,(e,l)->l^y).last()",
	"bisection(e->e*x-y, 0, 10)", "bisection(e->e, x, y)", "bisection(e->e-1, 0, 10, x)", "[x,y].min()", "[x,y].max()", "[x,y].sum()", "[x,y].mean()", "[x,y].order(e->e).size()", "[x,y].groupByEqual(e->e).size()",
	"[x,y].groupByInt(e->e).size()", "[x,y].uniqueString(e->e).size()", "[x,y].minMax(e->e).min", "x ~ [y]", "[x] ~ [y,x]", "switch x case y: 1 default 2", "if x then 1 else 2", "x/y*y", "x^y^y", "(x<<y)>>y", "x%y%x",
	"numbers(3).map(e->{t:e*x,v:y}).iirApply(createLowPass(\"f\", p->p.t, p->p.v, x)).size()", "[{x:x,y:y},{x:y,y:x}].createInterpolation(p->p.x,p->p.y)(x)", "[{x:0,y:x},{x:1,y:y}].linearReg(p->p.x,p->p.y).a",
}

func genC05Boundary(r *rng) *Case {
	expr := pick(r, boundaryExprs...)
	x, y := pick(r, boundaryArgs...), pick(r, boundaryArgs...)
	ctx := pick(r, "top", "top", "closure", "try", "par-map", "seq-map")
	text := expr
	parallel := false
	switch ctx {
	case "closure":
		text = "(u->" + expr + ")(0)"
	case "try":
		text = "try " + expr + " catch -77"
	case "par-map":
		text = "numbers(20).map(i->cost(0,i)+(if i=15 then [" + expr + "].size() else 0)).sum()"
		parallel = true
	case "seq-map":
		text = "numbers(3).map(i->[" + expr + "].size()).sum()"
	}
	host := HostTables{}
	if parallel {
		host.Costs = []CostProf{{Base: 300_000}}
	}
	sim, _ := genSim(r, parallel, false)
	sc := &Script{NFn: 1, Host: host,
		Setup:   []Op{{Kind: "gen", Text: text, ArgNames: []string{"x", "y"}}},
		Clients: [][]Op{{{Kind: "eval", Args: []Arg{x, y}, Consume: -1}}}}
	c := &Case{Class: "boundary@" + ctx, Sim: sim, Script: sc}
	c.X.Fault, c.X.Ctx = "boundary", ctx
	return c
}

// boundaryEnumBase: run indices from here on enumerate (expression, x, y) completely
const boundaryEnumBase = 1_000_000

func boundaryCombos() int {
	n := 0
	for _, e := range boundaryExprs {
		if strings.Contains(e, "y") {
			n += len(boundaryArgs) * len(boundaryArgs)
		} else {
			n += len(boundaryArgs)
		}
	}
	return n
}

// genC05BoundaryEnum maps an index to one (expression, x, y) combination; the context
// rotates with the index.
func genC05BoundaryEnum(e uint64) *Case {
	idx := int(e % uint64(boundaryCombos()))
	na := len(boundaryArgs)
	for _, ex := range boundaryExprs {
		n := na
		if strings.Contains(ex, "y") {
			n = na * na
		}
		if idx >= n {
			idx -= n
			continue
		}
		x, y := boundaryArgs[idx%na], boundaryArgs[0]
		if n > na {
			y = boundaryArgs[idx/na]
		}
		ctx := []string{"top", "top", "top", "try", "closure", "seq-map"}[int(e/7)%6]
		text := ex
		switch ctx {
		case "closure":
			text = "(u->" + ex + ")(0)"
		case "try":
			text = "try " + ex + " catch -77"
		case "seq-map":
			text = "numbers(3).map(i->[" + ex + "].size()).sum()"
		}
		sc := &Script{NFn: 1,
			Setup:   []Op{{Kind: "gen", Text: text, ArgNames: []string{"x", "y"}}},
			Clients: [][]Op{{{Kind: "eval", Args: []Arg{x, y}, Consume: -1}}}}
		c := &Case{Class: "boundary-enum@" + ctx, Sim: SimCfg{NumCPU: 1, Policy: "canonical"}, Script: sc}
		c.X.Fault, c.X.Ctx = "boundary", ctx
		return c
	}
	return &Case{}
}

func genC05(r *rng, tier string) *Case {
	if r.chance(0.08) {
		// no fault at all: a lazy list shared by several goroutines of one evaluation (multiUse
		// consumers, merge operands, parallel workers); the oracle is "no crash, no hang"
		forceShared = true
		c := genC06(r, tier)
		forceShared = false
		if c.Pipe != nil && c.Pipe.Shared > 0 {
			c.Class = "concurrent-benign"
			c.X = Expect{Fault: "concurrent-benign", Ctx: "shared-list"}
			return c
		}
	}
	if r.chance(0.25) {
		return genC05Boundary(r)
	}
	fault := pick(r, c05Faults...)
	if r.chance(0.03) {
		fault = "runaway-fresh"
	}
	ctx := pick(r, c05Ctx...)
	try := r.chance(0.4)
	n := pick(r, 40, 60, 100)
	k := r.rangeInt(14, n-2) // after the parallel switch (item 12) where relevant
	if r.chance(0.3) {
		k = r.rangeInt(0, 12)
	}
	switch ctx {
	case "mu-consumer-lazy-combine", "mu-consumer-lazy-iir", "mu-consumer-map-of-lists", "merge-operand-combine", "par-upstream-combine", "collector-iir", "seq-compact":
		if k == 0 {
			k = 1
		}
	case "seq-combine3":
		if k < 2 {
			k = 2
		}
	}
	if (ctx == "collector-reduce" || ctx == "iir") && k == 0 {
		k = 1 // the first element does not pass through the two-argument callback
	}
	if ctx == "merge-less" {
		k = 0 // the less function only sees p while both lists still have elements: trigger on the first call
	}
	if strings.HasPrefix(ctx, "huge-sized-") {
		k = pick(r, 1, 2, 3) // the fault has to come before anything of that size is built
	}
	if strings.HasSuffix(ctx, "-early") {
		k = pick(r, 1, 2, 3, 4) // right behind what the consumer takes
		if ctx == "par-upstream-number-early" {
			k = pick(r, 14, 15, 16, 20)
		}
	}
	ks := "k"
	// the fault may sit below many levels of operands: every level wraps the error once more
	deep := 0
	if fault != "runaway-slots" && fault != "runaway-fresh" && r.chance(0.15) {
		deep = pick(r, 20, 40, 64)
	}
	deepKind := r.intn(3)
	f := func(x string) string {
		e := faultExpr(fault, x, ks)
		if deep == 0 {
			return e
		}
		switch deepKind {
		case 0: // long left-associative chain with the fault leftmost
			return "(" + e + strings.Repeat("+1", deep) + "-" + strconv.Itoa(deep) + ")"
		case 1: // nested on the right
			return "(" + strings.Repeat("1+(", deep) + e + strings.Repeat(")", deep) + "-" + strconv.Itoa(deep) + ")"
		default: // at the bottom of a non-tail recursion
			return "((g,n,y)->if n=0 then " + strings.ReplaceAll(e, x, "y") + " else 1+g(g,n-1,y))((g,n,y)->if n=0 then " + strings.ReplaceAll(e, x, "y") + " else 1+g(g,n-1,y)," + strconv.Itoa(deep) + "," + x + ")-" + strconv.Itoa(deep)
		}
	}
	var body string
	parallel := false
	switch ctx {
	case "top":
		body = "let x=k; " + f("x")
	case "closure":
		body = "let h=x->" + f("x") + "; h(k)"
	case "nested-closure":
		body = "let h=x->(y->" + f("y") + ")(x); [h(k), 1].size()"
	case "seq-map":
		body = "numbers(a).map(x->" + f("x") + ").sum()"
	case "par-map":
		body = "numbers(a).map(x->cost(0," + f("x") + ")).sum()"
		parallel = true
	case "seq-accept":
		body = "numbers(a).accept(x->(" + f("x") + ">=0)|true).size()"
	case "par-accept":
		body = "numbers(a).accept(x->(cost(0," + f("x") + ")>=0)|true).size()"
		parallel = true
	case "collector-map":
		body = "numbers(a).map(x->cost(0,x)).map(y->" + f("y") + ").sum()"
		parallel = true
	case "collector-reduce":
		body = "numbers(a).map(x->cost(0,x)).reduce((p,q)->p+" + f("q") + ")"
		parallel = true
	case "merge-operand":
		body = "numbers(a).map(x->" + f("x") + ").merge(numbers(b), (p,q)->p<q).size()"
	case "merge-operand2":
		body = "numbers(b).merge(numbers(a).map(x->" + f("x") + "), (p,q)->p<q).size()"
	case "merge-less":
		body = "numbers(a).merge(numbers(b), (p,q)->" + f("p") + "<q).size()"
	case "mu-source":
		body = "numbers(a).map(x->" + f("x") + ").multiUse({s: l->l.sum(), n: l->l.size()}).s"
	case "mu-consumer":
		body = "numbers(a).multiUse({s: l->l.map(x->" + f("x") + ").sum(), n: l->l.size()}).s"
	case "mu-consumer-par":
		body = "numbers(a).multiUse({s: l->l.map(x->cost(0," + f("x") + ")).sum(), n: l->l.size()}).s"
		parallel = true
	case "mu-consumer-lazy-combine":
		body = "numbers(a).multiUse({s: l->l.combine((p,q)->" + f("q") + "+p), n: l->l.size()}).s.size()"
	case "mu-consumer-lazy-iir":
		body = "numbers(a).multiUse({s: l->l.iir(x->x, (x,m)->" + f("x") + "+m%7), n: l->l.size()}).s.size()"
	case "mu-consumer-lazy-number":
		body = "numbers(a).multiUse({s: l->l.map(x->x+1).number((n,x)->" + f("x-1") + "), n: l->l.size()}).s.size()"
	case "mu-consumer-lazy-map":
		body = "numbers(a).multiUse({s: l->l.map(x->" + f("x") + "), n: l->l.size()}).s.size()"
	case "mu-consumer-map-of-lists":
		body = "numbers(a).multiUse({s: l->{inner: l.combine((p,q)->" + f("q") + ")}, n: l->l.size()}).s.inner.size()"
	case "mu-source-par":
		body = "numbers(a).map(x->cost(0," + f("x") + ")).multiUse({s: l->l.sum(), n: l->l.size()}).s"
		parallel = true
	case "huge-sized-map-size":
		body = "numbers(100000000000).map(x->" + f("x") + ").size()"
	case "huge-sized-number-eval":
		body = "numbers(100000000000).number((n,x)->" + f("x") + ").eval().size()"
	case "huge-sized-iir-reverse":
		body = "numbers(100000000000).iir(x->x, (x,l)->" + f("x") + ").reverse().first()"
	case "merge-operand-number-early":
		body = "numbers(a).number((n,x)->" + f("x") + ").merge(numbers(b), (p,q)->p<q).first()"
	case "merge-operand2-iir-early":
		body = "numbers(b).merge(numbers(a).iir(x->x, (x,l)->" + f("x") + "), (p,q)->p<q).top(2).size()"
	case "merge-operand-combine-early":
		body = "numbers(a).combine((p,q)->" + f("q") + "+p).merge(numbers(b), (p,q)->p<q).present(x->x>=0)"
	case "mu-source-early":
		body = "numbers(a).number((n,x)->" + f("x") + ").multiUse({u:l->l.first(), v:l->l.top(2).size()}).u"
	case "par-upstream-number-early":
		body = "numbers(a).number((n,x)->" + f("x") + ").map(x->cost(0,x)).indexWhere(x->x>=13)"
		parallel = true
	case "merge-operand-combine":
		body = "numbers(a).combine((p,q)->" + f("q") + "+p).merge(numbers(b), (p,q)->p<q).size()"
	case "par-upstream-combine":
		body = "numbers(a).combine((p,q)->" + f("q") + "+p).map(x->cost(0,x)).sum()"
		parallel = true
	case "par-upstream-number":
		body = "numbers(a).number((n,x)->" + f("x") + ").accept(x->cost(0,x)>=0).size()"
		parallel = true
	case "collector-iir":
		body = "numbers(a).map(x->cost(0,x)).iir(x->x, (x,l)->" + f("x") + "+l%7).last()"
		parallel = true
	case "collector-accept":
		body = "numbers(a).map(x->cost(0,x)).accept(y->(" + f("y") + ">=0)|true).size()"
		parallel = true
	case "collector-cross":
		body = "numbers(a).map(x->cost(0,x)).cross([0,1], (p,q)->" + f("p") + "+q).size()"
		parallel = true
	case "seq-cross":
		body = "numbers(a).cross([0,1], (p,q)->" + f("p") + "+q).size()"
	case "seq-compact":
		body = "numbers(a).compact((p,q)->" + f("q") + "=p).size()"
	case "seq-fsm":
		body = "numbers(a).fsm((s,x)->goto((s.state+" + f("x") + ")%3)).size()"
	case "seq-combine3":
		body = "numbers(a).combine3((p,q,r)->p+q+" + f("r") + ").size()"
	case "seq-number":
		body = "numbers(a).number((n,x)->" + f("x") + "+n).size()"
	case "par-map-nested":
		body = "numbers(a).map(x->cost(0,[x].map(y->" + f("y") + ").first())).sum()"
		parallel = true
	case "groupby":
		body = "numbers(a).groupByEqual(x->" + f("x") + "%3).size()"
	case "minmax":
		body = "numbers(a).minMax(x->" + f("x") + ").max"
	case "visit":
		body = "numbers(a).visit(0, (v,x)->v+" + f("x") + ")"
	case "present":
		body = "numbers(a).present(x->(" + f("x") + ")*0<0)"
	case "index-where":
		body = "numbers(a).indexWhere(x->(" + f("x") + ")*0<0)"
	case "order":
		body = "numbers(a).order(x->0-" + f("x") + ").first()"
	case "iir":
		body = "numbers(a).iir(x->x, (x,l)->" + f("x") + "+l%7).last()"
	}
	prelude := ""
	if fault == "runaway-slots" {
		// runaway recursion that grows the value stack, through every way a closure can be called
		prelude = pick(r, "func rs(y) rs(y+1)+1; ", "func rs(y) rs(y+1)+1; ",
			"func rs(y) rs.invoke([y+1])+1; ",
			"let rm={f:(s,y)->s.f(s,y+1)+1}; func rs(y) rm.f(rm,y); ",
			"func rs(y) (try rs(y+1) catch throw(\"again\"))+1; ",
			"func rs(y) (if y>=0 then rs else 0)(y+1)+1; ",
			"func rs(y) [rs][0](y+1)+1; ",
			"func rs(y) {g:rs}.g(y+1)+1; ",
			"func rs(y) (z->rs(z+1))(y)+1; ",
			"func rs(y) [y+1].reduce((p,q)->p)+rs(y+1); ")
	}
	if fault == "runaway-fresh" {
		prelude = "func rf(y) [y].map(z->rf(z+1)).first(); "
	}
	text := prelude + body
	if try {
		text = prelude + "try " + body + " catch -77"
	}
	host := HostTables{}
	if parallel {
		host.Costs = []CostProf{{Base: pick(r, int64(250_000), 400_000)}}
	}
	host.Fails = make([]Match, 10)
	host.Booms = make([]Match, 10)
	host.Fails[9] = Match{Kind: "eq", A: k}
	host.Booms[9] = Match{Kind: "eq", A: k}
	sim, stalls := genSim(r, parallel, true)
	if !parallel && r.chance(0.5) {
		sim.NumCPU = 1
	}
	sc := &Script{NFn: 1, Host: host,
		Setup:   []Op{{Kind: "gen", Text: text, ArgNames: []string{"a", "b", "k"}}},
		Clients: [][]Op{{{Kind: "eval", Args: []Arg{{K: "int", I: n}, {K: "int", I: 25}, {K: "int", I: k}}, Consume: -1}}}}
	c := &Case{Class: fault + "@" + ctx, Sim: sim, StallF: stalls, Script: sc}
	c.X.Fault, c.X.Ctx, c.X.Try = fault, ctx, try
	return c
}

// ---------- C08 ----------

func genC08(r *rng, tier string) *Case {
	p := &Pipe{}
	huge := r.chance(0.6)
	if huge {
		p.N = pick(r, 1_000_000_000, 100_000_000_000)
	} else {
		p.N = pick(r, 1000, 5000, 100000, 10, 30, 64, 100, 101, 300)
	}
	x := Expect{Huge: huge}
	if r.chance(0.08) {
		// build and drop
		p.Stages = genPipeStages(r, 4, []string{"map", "accept", "skip", "top", "plus", "combine", "iir", "number", "merge", "cross", "compact", "fsm", "combine3", "combineN", "iirCombine"})
		if len(p.Stages) == 0 {
			p.Stages = []Stage{{Op: "map"}}
		}
		for i := range p.Stages {
			p.Stages[i].Fn %= 4 // no constant sub-pipelines: those are evaluated by the optimizer inside Generate
			if hasClosure(p.Stages[i].Op) {
				p.Stages[i].Probe = true
			}
		}
		for i := range p.Stages { // probes report stage 0 only in the judge, so mark all as stage 0 by moving? keep ids; judge counts all probes
			_ = i
		}
		p.B = 5
		p.Term = Stage{Op: "lazyk"}
		p.Consume = 0
		x.Drop = true
		sim, _ := genSim(r, true, false)
		return &Case{Class: "drop", Sim: sim, Pipe: p, X: x}
	}
	// first stage: identity map with probe (+cost, +fail) directly on the source
	first := Stage{Op: "map", Ident: true, Probe: true}
	par := r.chance(0.45)
	costs := []CostProf{{}}
	ck := "zero"
	fair := true
	if par {
		first.Cost = true
		base := pick(r, int64(250_000), 400_000)
		switch pick(r, "uniform", "uniform", "uniform", "late", "heavy-tail") {
		case "uniform":
			costs[0] = CostProf{Base: base}
			ck = "uniform"
		case "late":
			costs[0] = CostProf{Base: 0, Mid: base, From: r.rangeInt(0, 60), To: 1 << 30}
			ck = "cheap-then-exp"
		case "heavy-tail":
			at := r.rangeInt(13, 80)
			costs[0] = CostProf{Base: base, Mid: base * pick(r, int64(1000), 100000), From: at, To: at + 1}
			ck = "heavy-tail"
			fair = false
		}
	}
	p.Stages = []Stage{first}
	offset := 0
	parStages := 1
	nExtra := r.rangeInt(0, 3)
	for i := 0; i < nExtra; i++ {
		st := Stage{Op: pick(r, "map", "accept", "combine", "combine3", "iir", "iirCombine", "number", "skip", "top", "combineN"), Ident: true}
		switch st.Op {
		case "combine":
			offset++
		case "combine3":
			offset += 2
		case "combineN":
			st.N = r.intn(3)
			offset += 2 + st.N%3 - 1
		case "skip":
			st.N = pick(r, 0, 1, 3, 12, 40)
			offset += st.N
		case "top":
			st.N = 1_000_000
		case "map", "accept":
			parStages++
		}
		p.Stages = append(p.Stages, st)
	}
	k := pick(r, 0, 1, 2, 5, 11, 12, 13, 20, 50, 100, 200, 500)
	if tier == "quick" && k > 200 {
		k = 200
	}
	if p.N <= 300 {
		// small sources: keep the decisive element well inside, so that "behind it" exists
		k = r.intn(p.N/3 + 1)
		if par {
			costs[0] = CostProf{Base: costs[0].Base}
			if ck == "heavy-tail" || ck == "cheap-then-exp" {
				ck = "uniform"
			}
		}
	}
	need := k + offset
	term := pick(r, "first", "present", "indexWhere", "contains", "single", "topsize", "lazyk", "multiUse")
	// a lazy second operand (cross / merge / +) as the last stage
	second := ""
	if r.chance(0.25) {
		second = pick(r, "cross", "merge", "plus")
		term = pick(r, "first", "present", "indexWhere", "contains")
		p.B = pick(r, 1_000_000_000, 100_000_000_000, 60, 500)
		if second != "plus" && p.B < 1000 && k >= p.B/2 {
			k = r.intn(p.B / 2)
			need = k + offset
		}
		if second == "plus" && p.N <= 300 {
			// the decisive element must lie inside the first operand
			if k+offset >= p.N-offset-2 {
				k = 0
				need = offset
			}
		}
		if second == "plus" && r.chance(0.3) {
			// a size-limited view over list + short list of known size: the size of the sum must not be
			// taken for the size of its known part (top(n) with n >= that size has to stay a limit)
			term = "topsize"
			p.B = pick(r, 0, 1, 2, 3)
			if r.chance(0.7) {
				p.Stages = append(p.Stages, Stage{Op: "accept", Ident: true}) // the receiver loses its known size
			}
		}
		p.Stages = append(p.Stages, Stage{Op: second, Ident: true})
		x.Has2 = true
		x.Merge = second == "merge"
	}
	switch term {
	case "first":
		p.Term = Stage{Op: "first"}
		need = offset
	case "present", "indexWhere", "contains":
		p.Term = Stage{Op: term}
		p.K = need // output element k has value k+offset
		if term == "contains" && second == "" {
			p.Term.N = pick(r, 0, 0, 0, 1, 1, 3, 4)
			if p.Term.N >= 3 {
				need = offset // an empty list of items is contained in everything: one look decides
				k = 0
			}
		}
	case "single":
		p.Term = Stage{Op: "single"}
		need = offset + 1 // has to see a second element to decide
	case "topsize":
		p.Term = Stage{Op: "topsize", N: k + 1}
		need = k + 1 + offset // the (k+2)-th element is pulled before the stage stops
	case "lazyk":
		p.Term = Stage{Op: "lazyk"}
		p.Consume = k + 1
		need = k + 1 + offset
	case "multiUse":
		need = k + 1 + offset
		p.Term = Stage{Op: "multiUse"}
		k2 := r.rangeInt(0, k)
		p.MU = []Stage{{Op: "topsize", N: k + 1}, {Op: pick(r, "first", "topsize"), N: k2 + 1}}
		if r.chance(0.5) {
			p.MU[0], p.MU[1] = p.MU[1], p.MU[0]
		}
	}
	switch second {
	case "cross":
		// the stream behind cross is the second operand's 0,1,2,... (for the first element of the receiver)
		x.Need2 = k
		need = offset
		switch term {
		case "first":
			x.Need2 = 0
		default:
			p.K = k
		}
	case "plus":
		x.Need2 = -1
	case "merge":
		// receiver values start at offset, second operand at 0: the value K is decisive
		if term == "first" {
			need, x.Need2 = offset, 0
		} else {
			p.K = k + offset
			need, x.Need2 = k+offset, k+offset
		}
	}
	// compact as the last stage: runs of R consecutive values collapse to their first item, so output
	// element j sits at source element val(j); the first item of a run is decisive as soon as it is seen
	compacted := false
	if second == "" && r.chance(0.12) && (term == "first" || term == "present" || term == "indexWhere" || term == "contains" || term == "topsize" || term == "lazyk") {
		compacted = true
		R := pick(r, 8, 40, 200)
		kk := r.intn(5)
		val := func(j int) int {
			if j == 0 {
				return offset
			}
			return (offset/R+1)*R + (j-1)*R
		}
		p.Stages = append(p.Stages, Stage{Op: "compact", Ident: true, N: R})
		k = kk
		switch term {
		case "first":
			need = offset
		case "present", "indexWhere", "contains":
			p.K = val(kk)
			need = val(kk)
			if term == "contains" && p.Term.N >= 3 {
				need = offset
			}
		case "topsize":
			p.Term = Stage{Op: "topsize", N: kk + 1}
			need = val(kk + 1)
		case "lazyk":
			p.Consume = kk + 1
			need = val(kk + 1)
		}
	}
	// the consumer's own closure is slow (and counted): a consumer must evaluate it for the elements up to
	// the decisive one and for no other, whatever a stage would do with a slow closure
	if (term == "present" || term == "indexWhere") && second == "" && r.chance(0.25) {
		ts := len(p.Stages)
		if !compacted {
			ts = len(p.Stages)
		}
		p.Term.Cost, p.Term.Probe = true, true
		for len(costs) <= ts {
			costs = append(costs, CostProf{})
		}
		costs[ts] = CostProf{Base: pick(r, int64(250_000), 400_000)}
		x.TermProbe = ts
		x.TermK = p.K
	}
	// a sparse filter upstream: behind the decisive element (plus a little slack) nothing passes any more,
	// so a stop that only takes effect "at the next item" never takes effect on a huge source
	if second == "" && !compacted && term != "multiUse" && term != "single" && r.chance(0.2) {
		at := 1 + r.intn(len(p.Stages)) // never in front of the probing first stage
		sp := Stage{Op: "accept", Ident: true, Sparse: need + r.rangeInt(1, 4)}
		p.Stages = append(p.Stages[:at:at], append([]Stage{sp}, p.Stages[at:]...)...)
		x.SparseAt = sp.Sparse
	}
	// the decisive source element, without read-ahead (sequential-mode error oracle)
	if second == "" {
		x.HasDec = true
		switch term {
		case "first":
			x.Dec = offset
		case "single":
			x.HasDec = false // single on a longer list is an error by itself
		case "multiUse":
			x.HasDec = false // the distributor reads one element further by design
		default:
			x.Dec = k + offset
		}
		if compacted {
			x.Dec = need
			if term == "topsize" || term == "lazyk" {
				x.HasDec = false // finding the next run's first item legitimately scans a whole run
			}
		}
	}
	// the source must be longer than everything the consumer needs
	if m := 2*(need+offset) + 30; p.N < m {
		p.N = m
	}
	// a list value that is used twice: consumed completely first, then by the short-circuit consumer
	reuse := false
	if second == "" && x.SparseAt == 0 && term != "multiUse" && k <= 60 && r.chance(0.12) {
		reuse = true
		p.Reuse = pick(r, "reduce", "sum", "minMax", "presentfalse", "size", "last", "multiUse", "string", "mapReduce")
		p.N = max(2*(need+offset)+30, pick(r, 40, 64, 100, 300))
		x.Reuse, x.N = true, p.N
	}
	host := HostTables{Costs: costs}
	if r.chance(0.35) && second == "" && !reuse {
		// a failing source element somewhere relative to the decisive one
		f := need + pick(r, -3, -1, 0, 1, 2, 3, 5, 8, 20, 50, 200, 1000)
		if f >= 0 {
			p.Stages[0].Fail = true
			host.Fails = []Match{{Kind: "eq", A: f}}
			x.FailAt = f + 1
		}
	}
	sim, stalls := genSim(r, true, par)
	if !par {
		// costs are zero: the pipeline stays sequential whatever NumCPU says
		sim.NumCPU = pick(r, 1, 2, 4, 16)
	}
	if sim.Policy == "pct" || len(stalls) > 0 || x.TermProbe > 0 {
		// (a slow consumer lets the workers of a parallel stage run ahead like a stalled one does)
		fair = false
	}
	x.Need, x.S, x.ParSt, x.Fair, x.Term = need, len(p.Stages)+1, parStages, fair, term
	return &Case{Class: term + "/" + ck, Sim: sim, StallF: stalls, Pipe: p, Host: host, X: x}
}

// ---------- C12 ----------

func genC12(r *rng, tier string) *Case {
	switch c := r.intn(100); {
	case c < 30:
		// every way parsing can stop early
		kind := pick(r, "value", "value", "value", "float", "bool")
		text, class := genParseText(r, kind, 1200)
		for bytes.Contains(text, []byte("y->y(y)")) {
			// Constant programs that recurse forever through list methods kill the process
			// inside Generate (finding of C04/C05): there is no return after which a
			// leftover goroutine could be looked for, so they are not part of this workload.
			text, class = genParseText(r, kind, 1200)
		}
		// make most of them erroneous in the middle: append junk after a valid prefix
		if class == "valid" && r.chance(0.7) {
			text = append(text, []byte(pick(r, " )", " 1 2", " ]+1", " \"", " ;;", " x y z", " @ 1+2+3", " let", " 1 + + 2 + 3 + 4"))...)
			class = "trailing"
		}
		g := GenCfg{Kind: kind, Comments: r.chance(0.5), Comfort: r.chance(0.3), NoOpt: r.chance(0.3)}
		if r.chance(0.25) {
			g.KW = r.rangeInt(1, 4)
		}
		sim, _ := genSim(r, false, false)
		rep := 1
		if r.chance(0.2) {
			rep = pick(r, 5, 20, 100)
		}
		ops := make([]Op, rep)
		entry := pick(r, 0, 0, 0, 0, 1, 2, 3)
		for i := range ops {
			ops[i] = Op{Kind: "gen", TextB: text, ArgNames: []string{"a", "b"}, Entry: entry}
		}
		return &Case{Class: "parse/" + class, Sim: sim, Script: &Script{Gens: []GenCfg{g}, Setup: ops, NFn: 1}}
	case c < 38:
		// errors found only by the generator after a successful parse
		text := pick(r, "a+c", "f(a)", "numbers(a).map(x->y)", "let x=1; let x=2; x", "numbers(1,2)", "a.b.c(", "let q=a+; 1", "func f(x) g(x); f(1)", "{a:1, a:2}", "[1,2].map()", "throw()", "x->x->", "numbers(a).map(x->x+zz).size()")
		sim, _ := genSim(r, false, false)
		return &Case{Class: "parse/generator-error", Sim: sim, Script: &Script{Setup: []Op{{Kind: "gen", Text: text, ArgNames: []string{"a", "b"}}}, NFn: 1}}
	}
	// pipelines
	p := &Pipe{}
	huge := r.chance(0.35)
	x := Expect{Huge: huge}
	ident := huge
	if huge {
		p.N = 100_000_000_000
	} else {
		p.N = pick(r, 0, 1, 13, 30, 60, 100, 200, 400)
	}
	p.B = pick(r, 0, 3, 30)
	if huge && r.chance(0.5) {
		p.B = 1_000_000_000
	}
	ops := []string{"map", "map", "accept", "combine", "iir", "number", "skip", "merge", "top", "combine3", "plus", "compact", "cross", "fsm"}
	if huge {
		ops = []string{"map", "map", "accept", "combine", "iir", "number", "skip", "merge", "combine3", "iirCombine"}
	}
	p.Stages = genPipeStages(r, 3, ops)
	if len(p.Stages) == 0 || r.chance(0.5) {
		p.Stages = append([]Stage{{Op: "map"}}, p.Stages...)
	}
	var costStages []int
	for i := range p.Stages {
		p.Stages[i].Ident = ident
		if p.Stages[i].Op == "merge" {
			p.Stages[i].Fn = 1 // other = numbers(b): monotone, value preserving
		}
		if (p.Stages[i].Op == "map" || p.Stages[i].Op == "accept") && r.chance(0.7) {
			p.Stages[i].Cost = true
			costStages = append(costStages, i)
		}
	}
	k := pick(r, 0, 1, 5, 12, 13, 20, 40, 100)
	p.K = k + 60
	tk := "short"
	switch c := r.intn(100); {
	case c < 55 || huge && c < 85:
		p.Term = Stage{Op: pick(r, "first", "present", "indexWhere", "contains", "topsize", "lazyk", "single"), N: k + 1}
		p.Consume = pick(r, 0, 1, k+1)
	case c < 85:
		p.Term = Stage{Op: pick(r, "reduce", "sum", "size", "last", "string", "order", "lazy", "minMax")}
		tk = "full"
	default:
		p.Term = Stage{Op: "multiUse"}
		tk = "multiuse"
		for j := r.rangeInt(1, 3); j > 0; j-- {
			if huge {
				p.MU = append(p.MU, Stage{Op: pick(r, "first", "topsize", "present"), N: r.rangeInt(1, 30)})
			} else {
				p.MU = append(p.MU, Stage{Op: pick(r, "first", "topsize", "sum", "size", "noread", "noread", "present", "last", "sum", "size", "notfunc", "arity2", "twice", "twice", "twice-short", "lazyret", "lazyret", "unopened", "unopened"), N: r.rangeInt(1, 30)})
			}
		}
	}
	if !huge && r.chance(0.12) {
		// comparison of two lazy lists (one a prefix of the other, equal, different, erroneous)
		p.Term = Stage{Op: "listeq", N: r.intn(320)}
		p.MU = nil
		tk = "listeq"
	}
	nIds := len(p.Stages) + 1 + len(p.MU)
	costs, ck := genCosts(r, nIds, costStages, 200)
	host := HostTables{Costs: costs}
	if r.chance(0.25) {
		var cands []int
		for i := range p.Stages {
			if hasClosure(p.Stages[i].Op) {
				cands = append(cands, i)
			}
		}
		if len(cands) > 0 {
			s := pick(r, cands...)
			p.Stages[s].Fail = true
			host.Fails = make([]Match, nIds)
			host.Fails[s] = Match{Kind: pick(r, "eq", "ge"), A: pick(r, 0, 5, 13, 14, 30, 90)}
		}
	}
	if r.chance(0.12) {
		// a panicking host function in some closure-calling stage (every error path)
		var cands []int
		for i := range p.Stages {
			if hasClosure(p.Stages[i].Op) {
				cands = append(cands, i)
			}
		}
		if len(cands) > 0 {
			s := pick(r, cands...)
			p.Stages[s].Boom = true
			host.Booms = make([]Match, nIds)
			host.Booms[s] = Match{Kind: pick(r, "eq", "ge"), A: pick(r, 0, 5, 13, 14, 30, 90)}
		}
	}
	if !huge && r.chance(0.1) {
		p.Const = true
		if p.N > 100 {
			p.N = 100
		}
		for i := range p.Stages { // host functions must be foldable: use pcost through text replace below
			p.Stages[i].Fail = false
			p.Stages[i].Boom = false
		}
	}
	sim, stalls := genSim(r, true, true)
	c := &Case{Class: "pipe/" + tk + "/cost=" + ck, Sim: sim, StallF: stalls, Pipe: p, Host: host, X: x}
	if p.Const {
		// render now, swap cost -> pcost so that the whole program is constant-folded inside Generate
		text, err := p.render()
		if err == nil {
			text = strings.ReplaceAll(text, "cost(", "pcost(")
			c.Pipe = nil
			c.Script = &Script{NFn: 1, Host: host, Setup: []Op{{Kind: "gen", Text: text, ArgNames: []string{"zz"}}},
				Clients: [][]Op{{{Kind: "eval", Args: []Arg{{K: "int", I: 0}}, Consume: -1}}}}
			c.Class = "pipe-const/" + tk + "/cost=" + ck
		}
	}
	return c
}

var _ = strconv.Itoa
