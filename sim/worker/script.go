package main

import (
	"errors"
	"fmt"
	"math"
	"runtime/metrics"
	"strconv"
	"strings"

	"github.com/hneemann/parser2"
	"github.com/hneemann/parser2/funcGen"
	"github.com/hneemann/parser2/listMap"
	"github.com/hneemann/parser2/value"
	"verif.local/simrt"
)

// ---------- case description (JSON) ----------

type SimCfg struct {
	NumCPU     int           `json:"numcpu,omitempty"`
	GoMaxProcs int           `json:"gomaxprocs,omitempty"`
	Policy     string        `json:"policy,omitempty"` // canonical | random | pct
	PreemptP   float64       `json:"p,omitempty"`
	PCTDepth   int           `json:"pctd,omitempty"`
	PCTLen     int64         `json:"pctlen,omitempty"`
	SchedSeed  uint64        `json:"sseed,omitempty"`
	Stalls     []simrt.Stall `json:"stalls,omitempty"`
	Decisions  []int64       `json:"decisions,omitempty"` // non-nil => replay exactly these
	UseDecs    bool          `json:"usedecs,omitempty"`
}

type GenCfg struct {
	Kind     string `json:"kind,omitempty"` // value (default) | float | bool
	Comments bool   `json:"comments,omitempty"`
	Comfort  bool   `json:"comfort,omitempty"`
	NoOpt    bool   `json:"noopt,omitempty"`
	// keyword / operator configuration: 0 default | 1 no keywords | 2 extra keywords colliding with
	// identifiers | 3 text operators | 4 extra operators sharing prefixes with the built-in ones
	KW int `json:"kw,omitempty"`
}

var kwExtra = []string{"let", "func", "if", "then", "else", "switch", "case", "default", "const", "try", "catch", "a", "x", "map", "numbers", "e0", "in", "1"}
var kwTextOps = map[string]string{"and": "&", "or": "|", "mod": "%", "is": "=", "plus": "+", "x": "*", "less": "<", "not": "!", "then": "+"}

func configKW[V any](g *funcGen.FunctionGenerator[V], kw int, pass func(a, b V) (V, error)) {
	switch kw {
	case 1:
		g.SetKeyWords()
	case 2:
		g.SetKeyWords(kwExtra...)
	case 4:
		for _, op := range []string{"<=>", "**", "->>", "=>", "..", "&&", "|||", "<-", "-->", "!==", ":=", "<>", "=="} {
			g.AddSimpleOp(op, false, pass)
		}
	}
	if kw == 3 {
		g.GetParser().TextOperator(kwTextOps)
	}
}

type Arg struct {
	K      string  `json:"k"` // int float str bool ints handle hostlist nums map
	I      int     `json:"i,omitempty"`
	F      float64 `json:"f,omitempty"`
	S      string  `json:"s,omitempty"`
	B      bool    `json:"b,omitempty"`
	L      []int   `json:"l,omitempty"`
	FailAt int     `json:"failat,omitempty"` // hostlist: element index + 1 (0 = never)
	FailOn int     `json:"failon,omitempty"` // hostlist: traversal number
}

type Op struct {
	Kind     string   `json:"kind"` // gen | eval
	Gen      int      `json:"gen,omitempty"`
	Fn       int      `json:"fn,omitempty"`
	Text     string   `json:"text,omitempty"`
	TextB    []byte   `json:"textb,omitempty"` // raw bytes (parse inputs that are not valid UTF-8)
	ArgNames []string `json:"argnames,omitempty"`
	WithMap  bool     `json:"withmap,omitempty"`
	// entry point used by a gen operation: 0 Generate | 1 GenerateWithMap | 2 GenerateFromString | 3 CreateAst
	// (2 and 3 yield nothing that the script could evaluate later)
	Entry   int   `json:"entry,omitempty"`
	Args    []Arg `json:"args,omitempty"`
	Consume int   `json:"consume,omitempty"` // -1 deep (default via normalise), 0 drop, k prefix
	Store   int   `json:"store,omitempty"`   // handle slot + 1 (0 = none)
	Observe bool  `json:"observe,omitempty"` // pure observation op (C09)
	Ref     int   `json:"ref,omitempty"`     // force: index of the eval op (same client) whose stored result is consumed now
}

func (o *Op) text() string {
	if o.TextB != nil {
		return string(o.TextB)
	}
	return o.Text
}

type Script struct {
	Gens    []GenCfg   `json:"gens,omitempty"`
	Setup   []Op       `json:"setup,omitempty"`
	Clients [][]Op     `json:"clients,omitempty"`
	Host    HostTables `json:"host,omitempty"`
	NFn     int        `json:"nfn,omitempty"`
	NHandle int        `json:"nhandle,omitempty"`
}

type Outcome struct {
	Ok      bool   `json:"ok"`
	Val     string `json:"val,omitempty"`
	Err     string `json:"err,omitempty"`
	Skipped bool   `json:"skipped,omitempty"`
	Y0      int64  `json:"-"`
	Y1      int64  `json:"-"`
	T0      int64  `json:"-"`
	T1      int64  `json:"-"`
	Done    bool   `json:"-"`
	Alloc   uint64 `json:"-"` // bytes allocated by the process while the operation ran
}

func (o Outcome) class() string {
	switch {
	case o.Skipped:
		return "skipped"
	case !o.Done:
		return "unfinished"
	case o.Ok:
		return "ok:" + o.Val
	default:
		return "error"
	}
}

var allocSample = []metrics.Sample{{Name: "/gc/heap/allocs:bytes"}}

// allocBytes reads the cumulative number of heap bytes allocated by the process (cheap, no
// stop-the-world). Work done inside the standard library is invisible to the yield counter;
// the allocation volume is the deterministic stand-in for it.
//
//go:norace
func allocBytes() uint64 {
	metrics.Read(allocSample)
	if allocSample[0].Value.Kind() == metrics.KindUint64 {
		return allocSample[0].Value.Uint64()
	}
	return 0
}

// ---------- generators ----------

type evalFn func(args []value.Value) (value.Value, error)

type genI interface {
	generate(text string, args []string, withMap bool) (evalFn, error)
	// other entry points into parser and generator (nothing to evaluate afterwards)
	generateVia(entry int, text string, args []string) error
}

var errNotEvaluable = errors.New("generated through an entry point the script does not evaluate")

func viaEntry[V any](g *funcGen.FunctionGenerator[V], entry int, text string, args []string) error {
	switch entry {
	case 1:
		name := "m"
		if len(args) > 0 {
			name = args[0]
		}
		f, _, err := g.GenerateWithMap(text, name)
		if err == nil && f == nil {
			return errNoResult
		}
		return err
	case 2:
		f, _, err := g.GenerateFromString(text, args...)
		if err == nil && f == nil {
			return errNoResult
		}
		return err
	default:
		a, err := g.CreateAst(text, nil)
		if err == nil && a == nil {
			return errNoResult
		}
		return err
	}
}

func (g valueGen) generateVia(entry int, text string, args []string) error {
	return viaEntry(g.fg.FunctionGenerator, entry, text, args)
}
func (g floatGen) generateVia(entry int, text string, args []string) error {
	return viaEntry(g.fg, entry, text, args)
}
func (g boolGen) generateVia(entry int, text string, args []string) error {
	return viaEntry(g.fg, entry, text, args)
}

type valueGen struct{ fg *value.FunctionGenerator }

func (g valueGen) generate(text string, args []string, withMap bool) (evalFn, error) {
	var f funcGen.Func[value.Value]
	var err error
	if withMap && len(args) == 1 {
		f, _, err = g.fg.GenerateWithMap(text, args[0])
	} else {
		f, _, err = g.fg.Generate(text, args...)
	}
	if err != nil {
		return nil, err
	}
	if f == nil {
		return nil, errNoResult
	}
	return func(a []value.Value) (value.Value, error) { return f.Eval(a...) }, nil
}

var errNoResult = fmt.Errorf("generate returned neither a function nor an error")

type floatGen struct {
	fg *funcGen.FunctionGenerator[float64]
}

func (g floatGen) generate(text string, args []string, withMap bool) (evalFn, error) {
	f, _, err := g.fg.Generate(text, args...)
	if err != nil {
		return nil, err
	}
	if f == nil {
		return nil, errNoResult
	}
	return func(a []value.Value) (value.Value, error) {
		fa := make([]float64, len(a))
		for i, v := range a {
			if x, ok := v.ToFloat(); ok {
				fa[i] = x
			}
		}
		r, err := f.Eval(fa...)
		return value.Float(r), err
	}, nil
}

type boolGen struct {
	fg *funcGen.FunctionGenerator[bool]
}

func (g boolGen) generate(text string, args []string, withMap bool) (evalFn, error) {
	f, _, err := g.fg.Generate(text, args...)
	if err != nil {
		return nil, err
	}
	if f == nil {
		return nil, errNoResult
	}
	return func(a []value.Value) (value.Value, error) {
		ba := make([]bool, len(a))
		for i, v := range a {
			if x, ok := v.(value.Bool); ok {
				ba[i] = bool(x)
			}
		}
		r, err := f.Eval(ba...)
		return value.Bool(r), err
	}, nil
}

func fromBool(b bool) float64 {
	if b {
		return 1
	}
	return 0
}

func newGen(c GenCfg) genI {
	switch c.Kind {
	case "float":
		g := funcGen.New[float64]().
			SetComfort(c.Comfort).
			SetKeyWords("let", "func", "if", "then", "else").
			AddConstant("pi", math.Pi).
			AddSimpleOp("=", true, func(a, b float64) (float64, error) { return fromBool(a == b), nil }).
			AddSimpleOp("<", false, func(a, b float64) (float64, error) { return fromBool(a < b), nil }).
			AddSimpleOp(">", false, func(a, b float64) (float64, error) { return fromBool(a > b), nil }).
			AddSimpleOp("+", true, func(a, b float64) (float64, error) { return a + b, nil }).
			AddSimpleOp("-", false, func(a, b float64) (float64, error) { return a - b, nil }).
			AddSimpleOp("*", true, func(a, b float64) (float64, error) { return a * b, nil }).
			AddSimpleOp("/", false, func(a, b float64) (float64, error) { return a / b, nil }).
			AddSimpleOp("^", false, func(a, b float64) (float64, error) { return math.Pow(a, b), nil }).
			AddUnaryFunc("-", func(a float64) (float64, error) { return -a, nil }).
			AddSimpleFunction("sin", math.Sin).
			AddSimpleFunction("sqrt", math.Sqrt).
			AddSimpleFunction("sqr", func(x float64) float64 { return x * x }).
			SetToBool(func(c float64) (bool, bool) { return c != 0, true }).
			SetNumberParser(parser2.NumberParserFunc[float64](func(n string) (float64, error) { return strconv.ParseFloat(n, 64) }))
		if c.NoOpt {
			g.SetOptimizer(nil)
		}
		configKW(g, c.KW, func(a, b float64) (float64, error) { return a, nil })
		if c.Comments {
			g.GetParser().AllowComments()
		}
		return floatGen{g}
	case "bool":
		g := funcGen.New[bool]().
			SetComfort(c.Comfort).
			SetKeyWords("let", "func", "if", "then", "else").
			AddConstant("false", false).
			AddConstant("true", true).
			AddSimpleOp("^", true, func(a, b bool) (bool, error) { return a != b, nil }).
			AddSimpleOp("=", true, func(a, b bool) (bool, error) { return a == b, nil }).
			AddSimpleOp("|", true, func(a, b bool) (bool, error) { return a || b, nil }).
			AddSimpleOp("&", true, func(a, b bool) (bool, error) { return a && b, nil }).
			AddUnaryFunc("!", func(a bool) (bool, error) { return !a, nil }).
			SetToBool(func(c bool) (bool, bool) { return c, true })
		if c.NoOpt {
			g.SetOptimizer(nil)
		}
		configKW(g, c.KW, func(a, b bool) (bool, error) { return a, nil })
		if c.Comments {
			g.GetParser().AllowComments()
		}
		return boolGen{g}
	default:
		fg := newValueGen(false, c.Comfort)
		if c.NoOpt {
			fg.SetOptimizer(nil)
		}
		configKW(fg.FunctionGenerator, c.KW, func(a, b value.Value) (value.Value, error) { return a, nil })
		if c.Comments {
			fg.GetParser().AllowComments()
		}
		return valueGen{fg}
	}
}

// ---------- running a script inside the simulator ----------

type runner struct {
	sc       *Script
	gens     []genI
	fns      []evalFn
	outcomes [][]Outcome // [0] = setup, [1+i] = client i
}

func buildArg(a Arg, handles []value.Value) value.Value {
	switch a.K {
	case "int":
		return value.Int(a.I)
	case "float":
		switch a.S {
		case "nan":
			return value.Float(math.NaN())
		case "inf":
			return value.Float(math.Inf(1))
		case "-inf":
			return value.Float(math.Inf(-1))
		case "-0":
			return value.Float(math.Copysign(0, -1))
		}
		return value.Float(a.F)
	case "str":
		return value.String(a.S)
	case "bool":
		return value.Bool(a.B)
	case "ints":
		// a slice owned by the host, handed over as it is (with some spare capacity, as slices that
		// grew by append have); the host keeps looking at it: see hostSlices
		vs := make([]value.Value, len(a.L), len(a.L)+3)
		for i, x := range a.L {
			vs[i] = value.Int(x)
		}
		noteHostSlice(vs)
		return value.NewList(vs...)
	case "nums": // lazy, sized host list without faults
		return hostList(a.I, -1, 0)
	case "hostlist":
		return hostList(a.I, a.FailAt-1, a.FailOn)
	case "map":
		m := listMap.New[value.Value](len(a.L))
		for i, x := range a.L {
			m = m.Append("k"+strconv.Itoa(i), value.Int(x))
		}
		return value.NewMap(m)
	case "handle":
		if a.I >= 0 && a.I < len(handles) && handles[a.I] != nil {
			return handles[a.I]
		}
		return nil
	}
	return value.Int(0)
}

// hostSlices: every Go slice the host has wrapped into a list during the run, with a copy taken at
// that moment. Nothing the language does with the list may write through into the host's slice.
type hostSlice struct{ cur, snap []value.Value }

var hostSlices *[]hostSlice

// noteHostSlice: harness bookkeeping shared by all client tasks (only the baton holder runs; the race
// detector must not see it as a conflict between clients).
//
//go:norace
func noteHostSlice(vs []value.Value) {
	if hostSlices != nil {
		*hostSlices = append(*hostSlices, hostSlice{cur: vs, snap: append([]value.Value(nil), vs...)})
	}
}

func hostSlicesChanged(hs []hostSlice) []string {
	var out []string
	for k, h := range hs {
		for i := range h.snap {
			if h.cur[i] != h.snap[i] {
				out = append(out, fmt.Sprintf("host slice #%d: element %d was %v, is %v", k, i, h.snap[i], h.cur[i]))
				break
			}
		}
	}
	return out
}

// hostRecovers: the host iterates a lazy result after the evaluation call has returned. A closure
// that panics then (a panicking host function in a stage that does not convert panics) unwinds into
// the host's own loop; a host that protects itself sees a failure like any other. All harnesses do
// so except C05's, whose subject is exactly which faults reach the host as panics.
var hostRecovers = true

func hostConsume(b *strings.Builder, v value.Value, st funcGen.Stack[value.Value], lim int) (err error) {
	if hostRecovers {
		defer func() {
			if rec := recover(); rec != nil {
				err = fmt.Errorf("panic while the host consumed the result: %v", rec)
			}
		}()
	}
	return canon(b, v, st, lim, 0)
}

func (r *runner) doOp(op *Op, handles []value.Value) (out Outcome) {
	out.Y0 = simrt.Mark("op-start")
	out.T0 = simrt.SimNow()
	a0 := allocBytes()
	defer func() { out.Alloc = allocBytes() - a0 }()
	defer func() {
		// not reached on panic (the task dies) -- Done stays false
	}()
	switch op.Kind {
	case "gen":
		if op.Gen < 0 || op.Gen >= len(r.gens) {
			out.Skipped = true
			break
		}
		var f evalFn
		var err error
		if op.Entry > 0 {
			if err = r.gens[op.Gen].generateVia(op.Entry, op.text(), op.ArgNames); err == nil {
				f = func([]value.Value) (value.Value, error) { return nil, errNotEvaluable }
			}
		} else {
			f, err = r.gens[op.Gen].generate(op.text(), op.ArgNames, op.WithMap)
		}
		if err != nil {
			out.Err = err.Error()
			if err == errNoResult {
				out.Err = "NO-RESULT"
			}
		} else {
			out.Ok = true
			out.Val = "func"
		}
		if op.Fn >= 0 && op.Fn < len(r.fns) {
			r.fns[op.Fn] = f
		}
	case "eval":
		if op.Fn < 0 || op.Fn >= len(r.fns) || r.fns[op.Fn] == nil {
			out.Skipped = true
			break
		}
		args := make([]value.Value, len(op.Args))
		for i, a := range op.Args {
			args[i] = buildArg(a, handles)
			if args[i] == nil {
				out.Skipped = true
			}
		}
		if out.Skipped {
			break
		}
		v, err := r.fns[op.Fn](args)
		if err != nil {
			out.Err = err.Error()
			break
		}
		if op.Store > 0 && op.Store-1 < len(handles) {
			handles[op.Store-1] = v
		}
		if op.Consume == 0 {
			out.Ok = true
			out.Val = "dropped"
			break
		}
		var b strings.Builder
		st := funcGen.NewEmptyStack[value.Value]()
		lim := -1
		if op.Consume > 0 {
			lim = op.Consume
		}
		if err := hostConsume(&b, v, st, lim); err != nil {
			out.Err = err.Error()
			break
		}
		out.Ok = true
		out.Val = b.String()
	case "force":
		// late consumption of a result that an earlier evaluation left unconsumed or half consumed
		if len(op.Args) != 1 || op.Args[0].K != "handle" {
			out.Skipped = true
			break
		}
		v := buildArg(op.Args[0], handles)
		if v == nil {
			out.Skipped = true
			break
		}
		var b strings.Builder
		if err := hostConsume(&b, v, funcGen.NewEmptyStack[value.Value](), -1); err != nil {
			out.Err = err.Error()
			break
		}
		out.Ok = true
		out.Val = b.String()
	default:
		out.Skipped = true
	}
	out.Y1 = simrt.Mark("op-end")
	out.T1 = simrt.SimNow()
	out.Done = true
	return out
}

func (r *runner) client(i int, ops []Op) {
	handles := make([]value.Value, r.sc.NHandle)
	for j := range ops {
		r.outcomes[i][j] = r.doOp(&ops[j], handles)
	}
}

type RunOut struct {
	Res      *simrt.Result
	Outcomes [][]Outcome
	Host     *hostState
	Races    int
	// goroutines with library frames that are still alive after the teardown of all tasks
	Unmanaged []unmanagedG
	// slices owned by the host whose content differs from what it was when they were handed over
	HostChanged []string
}

func simConfig(sim SimCfg, b Budgets) simrt.Config {
	c := simrt.Config{
		Seed: sim.SchedSeed, NumCPU: sim.NumCPU, GoMaxProcs: sim.GoMaxProcs, Policy: sim.Policy, PreemptP: sim.PreemptP,
		PCTDepth: sim.PCTDepth, PCTLen: sim.PCTLen, Stalls: sim.Stalls,
		MaxYields: b.MaxYields, MaxDecs: b.MaxDecs, MaxTime: b.MaxTime,
		GraceYields: b.GraceYields, GraceTime: b.GraceTime, GraceDecs: b.GraceDecs, KeepLog: b.KeepLog,
		YieldNs: 20,
	}
	if sim.UseDecs {
		c.Policy = "replay"
		c.Replay = sim.Decisions
	}
	return c
}

type Budgets struct {
	MaxYields, MaxDecs, MaxTime int64
	GraceYields, GraceTime      int64
	GraceDecs                   int64
	AbortAbove                  int64 // end the run once a stage-0 probe sees an element beyond this index
	KeepLog                     bool
}

// runScript executes the script in one simulated run.
func runScript(sc *Script, sim SimCfg, b Budgets) *RunOut {
	r := &runner{sc: sc}
	nfn := sc.NFn
	if nfn <= 0 {
		nfn = 1
	}
	r.fns = make([]evalFn, nfn)
	r.outcomes = make([][]Outcome, 1+len(sc.Clients))
	r.outcomes[0] = make([]Outcome, len(sc.Setup))
	for i, c := range sc.Clients {
		r.outcomes[1+i] = make([]Outcome, len(c))
	}
	hs := &hostState{tab: sc.Host, abortAbove: b.AbortAbove}
	host = hs
	var slices []hostSlice
	hostSlices = &slices
	races0 := simrt.RaceErrors()
	res := simrt.Run(simConfig(sim, b), func() {
		gens := sc.Gens
		if len(gens) == 0 {
			gens = []GenCfg{{}}
		}
		for _, g := range gens {
			r.gens = append(r.gens, newGen(g))
		}
		handles := make([]value.Value, sc.NHandle)
		for j := range sc.Setup {
			r.outcomes[0][j] = r.doOp(&sc.Setup[j], handles)
		}
		switch len(sc.Clients) {
		case 0:
		case 1:
			r.client(1, sc.Clients[0])
		default:
			var wg simrt.WaitGroup
			for i := range sc.Clients {
				wg.Add(1)
				i := i
				simrt.Go("client", func() {
					defer wg.Done()
					r.client(1+i, sc.Clients[i])
				})
			}
			wg.Wait()
		}
	})
	host = nil
	hostSlices = nil
	return &RunOut{Res: res, Outcomes: r.outcomes, Host: hs, Races: simrt.RaceErrors() - races0, Unmanaged: unmanagedAfterRun(), HostChanged: hostSlicesChanged(slices)}
}
