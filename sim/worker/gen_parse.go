package main

import (
	"strconv"
	"strings"
	"unicode"
)

// every Unicode general category: inputs must cover all characters, not just the ones
// the language gives a meaning to
var uniTables = []*unicode.RangeTable{unicode.Nd, unicode.Nl, unicode.No, unicode.Lu, unicode.Ll, unicode.Lt, unicode.Lm, unicode.Lo,
	unicode.Mn, unicode.Mc, unicode.Me, unicode.Pc, unicode.Pd, unicode.Ps, unicode.Pe, unicode.Pi, unicode.Pf, unicode.Po,
	unicode.Sm, unicode.Sc, unicode.Sk, unicode.So, unicode.Zs, unicode.Zl, unicode.Zp, unicode.Cc, unicode.Cf, unicode.Co,
	unicode.Nd, unicode.Nl, unicode.No, unicode.No, unicode.Sm, unicode.Zs}

var specialRunes = []rune{0x00A0, 0x00AD, 0x00B2, 0x00B9, 0x00BC, 0x00BD, 0x2070, 0x2074, 0x2080, 0x2089, 0x2160, 0x2460, 0x0663, 0xFF15, 0x200B, 0x200D, 0x2028, 0x2029,
	0xFEFF, 0xFFFD, 0xFFFE, 0x10FFFF, 0x1F600, 0x1D7D8, 0x00D7, 0x00F7, 0x2022, 0x2013, 0x02C6, 0x03C0, 0x00E4, 0x0301, 0x2212, 0x2044, 0x221E, 0x00B5, 0x2260, 0x2264}

func randRune(r *rng) rune {
	if r.chance(0.25) {
		return pick(r, specialRunes...)
	}
	t := pick(r, uniTables...)
	n16, n32 := len(t.R16), len(t.R32)
	k := r.intn(n16 + n32)
	if k < n16 {
		rg := t.R16[k]
		cnt := int(rg.Hi-rg.Lo)/int(rg.Stride) + 1
		return rune(rg.Lo) + rune(r.intn(cnt))*rune(rg.Stride)
	}
	rg := t.R32[k-n16]
	cnt := int(rg.Hi-rg.Lo)/int(rg.Stride) + 1
	return rune(rg.Lo) + rune(r.intn(cnt))*rune(rg.Stride)
}

var badUTF8 = []string{"\xc0\x80", "\xe0\x80\x80", "\xed\xa0\x80", "\xed\xbf\xbf", "\xf4\x90\x80\x80", "\xf8\x88\x80\x80\x80", "\xc2", "\xe2\x82", "\xf0\x9f\x98", "\x80", "\xbf", "\xfe", "\xff"}

func randToken(r *rng) string {
	switch c := r.intn(10); {
	case c < 6:
		return pick(r, soupTokens...)
	case c < 9:
		return string(randRune(r))
	default:
		return pick(r, badUTF8...)
	}
}

// ---------- PRNG (the only source of randomness in generators) ----------

type rng struct{ s uint64 }

func newRng(seed uint64) *rng { return &rng{s: seed*0x9e3779b97f4a7c15 + 0x7f4a7c15} }

func mixSeed(base uint64, i uint64) uint64 {
	x := base ^ (i+1)*0xbf58476d1ce4e5b9
	x ^= x >> 31
	x *= 0x94d049bb133111eb
	x ^= x >> 29
	return x
}

func (r *rng) u64() uint64 {
	r.s += 0x9e3779b97f4a7c15
	z := r.s
	z = (z ^ (z >> 30)) * 0xbf58476d1ce4e5b9
	z = (z ^ (z >> 27)) * 0x94d049bb133111eb
	return z ^ (z >> 31)
}
func (r *rng) intn(n int) int {
	if n <= 0 {
		return 0
	}
	return int(r.u64() % uint64(n))
}
func (r *rng) chance(p float64) bool { return float64(r.u64()>>11)/(1<<53) < p }
func (r *rng) rangeInt(lo, hi int) int {
	if hi <= lo {
		return lo
	}
	return lo + r.intn(hi-lo+1)
}
func pick[T any](r *rng, xs ...T) T { return xs[r.intn(len(xs))] }

// ---------- program text for the parse harness (H2) ----------

type progGen struct {
	r     *rng
	kind  string // value | float | bool
	vars  []string
	depth int
}

func (g *progGen) num() string {
	switch g.kind {
	case "bool":
		return pick(g.r, "true", "false")
	case "float":
		return pick(g.r, "0", "1", "2", "3.5", "0.25", "10", "1e2", "7")
	}
	return pick(g.r, "0", "1", "2", "3", "7", "10", "12", "42", "99", "0.5", "2.25", "1e2")
}

func (g *progGen) atom() string {
	if len(g.vars) > 0 && g.r.chance(0.55) {
		return pick(g.r, g.vars...)
	}
	if g.kind == "value" && g.r.chance(0.15) {
		return pick(g.r, `"s"`, `"a b"`, `"x\ny"`, `""`, `"q\"q"`, "true", "false", "pi")
	}
	return g.num()
}

func (g *progGen) binop() string {
	switch g.kind {
	case "bool":
		return pick(g.r, "&", "|", "^", "=")
	case "float":
		return pick(g.r, "+", "-", "*", "/", "^", "<", ">", "=")
	}
	return pick(g.r, "+", "-", "*", "/", "%", "^", "<", ">", "<=", ">=", "=", "!=", "&", "|", "<<", ">>", "~")
}

func (g *progGen) expr(d int) string {
	r := g.r
	if d <= 0 {
		return g.atom()
	}
	n := 14
	if g.kind != "value" {
		n = 6
	}
	if g.kind == "value" && r.chance(0.3) {
		return g.rare(d)
	}
	switch r.intn(n) {
	case 0:
		return g.atom()
	case 1, 2:
		return g.expr(d-1) + g.sp() + g.binop() + g.sp() + g.expr(d-1)
	case 3:
		return "(" + g.expr(d-1) + ")"
	case 4:
		if g.kind == "bool" {
			return "!" + g.expr(d-1)
		}
		return "-" + g.expr(d-1)
	case 5:
		if g.kind == "float" {
			return pick(r, "sin", "sqrt", "sqr") + "(" + g.expr(d-1) + ")"
		}
		return "if " + g.expr(d-1) + " then " + g.expr(d-1) + " else " + g.expr(d-1)
	case 6:
		// let
		v := pick(r, "x", "y", "z", "u", "v", "w") + strconv.Itoa(len(g.vars))
		val := g.expr(d - 1)
		g.vars = append(g.vars, v)
		body := g.expr(d - 1)
		g.vars = g.vars[:len(g.vars)-1]
		return "let " + v + "=" + val + ";" + g.sp() + body
	case 7:
		// list literal + method
		items := []string{}
		for i := r.intn(4); i >= 0; i-- {
			items = append(items, g.expr(d-2))
		}
		l := "[" + strings.Join(items, ",") + "]"
		return l + g.method(d-1)
	case 8:
		return "numbers(" + pick(r, "3", "5", "12", "20") + ")" + g.method(d-1)
	case 9:
		// closure call
		v := "p" + strconv.Itoa(len(g.vars))
		g.vars = append(g.vars, v)
		body := g.expr(d - 1)
		g.vars = g.vars[:len(g.vars)-1]
		return "(" + v + "->" + body + ")(" + g.expr(d-1) + ")"
	case 10:
		return "{a:" + g.expr(d-1) + ", b:" + g.expr(d-2) + "}" + pick(r, ".a", ".b", ".size()", "", ".c")
	case 11:
		return "try " + g.expr(d-1) + " catch " + g.expr(d-2)
	case 12:
		return "switch " + g.expr(d-1) + " case 1: " + g.expr(d-2) + " case 2: " + g.expr(d-2) + " default " + g.expr(d-2)
	default:
		// func
		f := "f" + strconv.Itoa(len(g.vars))
		v := "q" + strconv.Itoa(len(g.vars))
		g.vars = append(g.vars, v)
		body := g.expr(d - 1)
		g.vars = g.vars[:len(g.vars)-1]
		g.vars = append(g.vars, f)
		rest := f + "(" + g.expr(d-2) + ")"
		g.vars = g.vars[:len(g.vars)-1]
		return "func " + f + "(" + v + ") " + body + ";" + g.sp() + rest
	}
}

// rare: syntactically reachable but unusual constructs of the value language
func (g *progGen) rare(d int) string {
	r := g.r
	e := func() string { return g.expr(d - 1) }
	switch r.intn(39) {
	case 36, 37, 38:
		// a name bound to a constant of every kind (the parser inlines such names as constant nodes),
		// used in every position a name can appear in
		val := pick(r, "7", "\"s\"", "2.5", "true", "[1,2]", "{a:1}", "x->x*2", "numbers(3)", "[[1],{b:2}]", "{f:x->x}", "\"\"", "[]", "{}", "(x,y)->x", "numbers(3).map(x->x)", "1/0", "0/0")
		def := "let cq=" + val + "; "
		if r.chance(0.2) {
			def = "func cq(x) " + pick(r, "x*2", "cq(x)", "[x]", "{a:x}") + "; "
		}
		use := pick(r, "switch a case cq:1 default 0", "switch cq case 1:1 case a:2 default 0", "switch a case 1:1 case cq:2 case cq:3 default 0",
			"{k:cq}.k", "[cq][0]", "cq=a", "a~cq", "cq~a", "cq(a)", "cq.size()", "if cq then 1 else 0", "try cq catch 0", "try a catch cq",
			"[1,2].map(e->switch e case 1:1 case cq:2 default 0)", "cq+cq", "a[cq]", "{cq:1}", "cq.cq", "sprintf(\"%v\",cq)",
			"let d=cq; switch a case d:1 default 0", "cq<a", "min(cq,a)", "[cq,cq].order(x->x)", "[cq,a].groupByEqual(x->x)", "{a:cq}={a:cq}",
			"numbers(3).map(x->cq)", "cq.map(x->x)", "string(cq)", "[cq] ~ [cq]", "switch true case cq: 1 default 0", "-cq", "!cq", "cq^cq", "cq%cq")
		return def + use
	case 0:
		return "f()" // unknown function, empty argument list
	case 1:
		return "numbers()" // wrong arity of a static function
	case 2:
		return "(()->" + e() + ")()" // closure without parameters
	case 3:
		return "((p,q)->p+q)(" + e() + "," + e() + ")"
	case 4:
		return "((p,p)->p)(1,2)" // duplicate parameter names
	case 5:
		return "switch " + e() + " default " + e() // switch without cases
	case 6:
		return "switch " + e() + " case " + e() + ": " + e() + " case " + e() + ": " + e() + " default " + e()
	case 7:
		return "{}" // empty map
	case 8:
		return "[]" + pick(r, "", ".size()", ".first()", ".sum()", ".map(x->x)", "[0]")
	case 9:
		return "{'a b':" + e() + ", c:" + e() + "}" + pick(r, "", ".'a b'", ".c", ".size()")
	case 10:
		return "{a:1, a:2}" // duplicate key
	case 11:
		return "{a:{b:{c:" + e() + "}}}.a.b.c"
	case 12:
		return "\"str\"" + pick(r, ".len()", ".toUpper()", ".split(\"t\")", ".cut(1,1)", "[0]", ".x", "()")
	case 13:
		return "3" + pick(r, ".string()", ".x", "()", "[0]", ".5.6")
	case 14:
		return "(" + e() + ")" + pick(r, "²", "³", "⁰", "¹²")
	case 15:
		return e() + pick(r, " • ", " × ", " ÷ ", " – ", " ˆ ") + e()
	case 16:
		return "2a" + pick(r, "", "(b)", " b", "(b)(a)", "²")
	case 17:
		return "'a'" + pick(r, "", "+1", "('b')") // quoted identifiers
	case 18:
		return "try try " + e() + " catch " + e() + " catch " + e()
	case 19:
		return "try " + e() + " catch e->e" + pick(r, "", ".len()", "+1")
	case 20:
		return "let f=x->y->z->x+y+z; f(" + e() + ")(" + e() + ")(" + e() + ")"
	case 21:
		return "func f(n) if n<1 then 0 else f(n-1)+1; f(" + pick(r, "3", "a", "b") + ")"
	case 22:
		return "func f(x) x; func g(y) f(y)+1; g(" + e() + ")"
	case 23:
		return "let x=" + e() + "; let x=" + e() + "; x" // redeclaration
	case 24:
		return "const" + pick(r, "", " c=1; c", " 1")
	case 25:
		return e() + pick(r, " /* c */ ", " // c\n", "/**/", "/*/", "//", "/* /* */ */") + e()
	case 26:
		return "\"a\\n\\t\\\"\\\\\\q\"" + pick(r, "", "+a", ".len()")
	case 27:
		return pick(r, "1e5", "1e-3", "1.5e+2", "0.000001", "1.", ".5", "1..2", "1e", "0x10", "1_000", "007", "1.2.3")
	case 28:
		return "[1,2,3]" + pick(r, ".map((p,q)->p)", ".map(1)", ".reduce(x->x)", ".map()", ".nosuch()", ".map(x->x,2)", ".top(\"a\")", ".multiUse({})", ".multiUse({a:1})", ".multiUse(1)")
	case 29:
		return "{a:1}" + pick(r, ".put(\"a\",2)", ".get(\"b\")", "+{a:2}", ".map(x->x)", ".replace(x->1)", ".nosuch", ".a.b")
	case 30:
		return "throw(" + pick(r, "\"x\"", "1", "", "a") + ")"
	case 31:
		return "if " + e() + " then " + e() // missing else
	case 32:
		return "(" + e() + "," + e() + ")" // tuple-like
	case 33:
		return "x->x->x" + pick(r, "", "(1)", "->")
	default:
		// constant sub-programs whose evaluation inside Generate (constant folding) misbehaves:
		// self-application, runaway recursion without a name, huge constant recursion depth
		return pick(r, "(x->x(x))(x->x(x))", "let w=x->x(x); w(w)+a", "let r=(x->x(x))(x->x(x)); a",
			"let c=(s,n)->if n=0 then 0 else s(s,n-1); c(c,20000)+a", "let c=(s,n)->if n=0 then 0 else s(s,n-1)+1; c(c,50)+a",
			"let w=x->[x].map(y->y(y))[0]; w(w)", "let w=x->[x].map(y->y(y)).first(); [w(w)]",
			"(f->f(f)(f))(g->g)", "let y=f->(x->x(x))(x->f(z->x(x)(z))); y(h->n->if n<1 then 1 else n*h(n-1))(5)",
			"throw(\"at generate time\")+a", "[1,2,3][5]+a", "{a:1}.b+a", "1%0+a", "(1<<(0-1))+a", "numbers(5).map(x->x%0).sum()+a",
			"numbers(3).multiUse({s:l->l.sum(), t:l->l.map(x->x(x)).sum()}).s+a")
	}
}

func (g *progGen) sp() string { return pick(g.r, "", "", " ", " ", "\n", "\t", " /*c*/ ", " //c\n") }

func (g *progGen) method(d int) string {
	r := g.r
	v := "e" + strconv.Itoa(len(g.vars))
	g.vars = append(g.vars, v)
	defer func() { g.vars = g.vars[:len(g.vars)-1] }()
	switch r.intn(8) {
	case 0:
		return ".map(" + v + "->" + g.expr(d-1) + ")" + pick(r, "", ".size()", ".sum()", ".string()")
	case 1:
		return ".accept(" + v + "->" + g.expr(d-1) + ")" + pick(r, "", ".size()")
	case 2:
		return ".size()"
	case 3:
		return ".reduce((a1," + v + ")->a1+" + g.expr(d-1) + ")"
	case 4:
		return "[" + g.expr(d-1) + "]"
	case 5:
		return ".first()"
	case 6:
		return ".top(" + pick(r, "0", "1", "2") + ")"
	default:
		return ".string()"
	}
}

var soupTokens = []string{"(", ")", "[", "]", "{", "}", ",", ";", ":", ".", "->", "+", "-", "*", "/", "%", "^", "=", "!=", "<", ">", "<=", ">=", "&", "|", "!", "~", "<<", ">>",
	"let", "func", "if", "then", "else", "switch", "case", "default", "try", "catch", "const", "a", "b", "x", "numbers", "map", "1", "22", "3.5", "1e3", `"s"`, `"`, "'", "'q q'", "//", "/*", "*/", "\n", " ", "\t", "²", "³", "•", "×", "÷", "–", "ˆ", "π", "ä", "\x00", "\xff", "\xc3", "\xe2\x82", "\\", "$", "#", "@", "?"}

// genParseText returns one input for Parse/Generate and a class label.
func genParseText(r *rng, kind string, maxLen int) ([]byte, string) {
	g := &progGen{r: r, kind: kind, vars: []string{"a", "b"}}
	valid := func() string { return g.expr(r.rangeInt(1, 5)) }
	switch c := r.intn(20); {
	case c < 5:
		return []byte(valid()), "valid"
	case c < 11:
		s := []byte(valid())
		for k := r.rangeInt(1, 3); k > 0 && len(s) > 0; k-- {
			i := r.intn(len(s))
			switch r.intn(6) {
			case 0: // delete a byte span
				j := i + r.rangeInt(1, 4)
				if j > len(s) {
					j = len(s)
				}
				s = append(s[:i:i], s[j:]...)
			case 1: // insert a token or an arbitrary character
				t := randToken(r)
				s = append(s[:i:i], append([]byte(t), s[i:]...)...)
			case 2: // duplicate a span
				j := i + r.rangeInt(1, 6)
				if j > len(s) {
					j = len(s)
				}
				s = append(s[:j:j], append(append([]byte{}, s[i:j]...), s[j:]...)...)
			case 3: // swap two bytes
				j := r.intn(len(s))
				s[i], s[j] = s[j], s[i]
			case 4: // truncate
				s = s[:i]
			case 5: // flip a byte
				s[i] = byte(r.intn(256))
			}
		}
		return s, "mutated"
	case c < 13:
		var b strings.Builder
		for k := r.rangeInt(1, 40); k > 0; k-- {
			b.WriteString(randToken(r))
			if r.chance(0.3) {
				b.WriteString(" ")
			}
		}
		return []byte(b.String()), "soup"
	case c < 15:
		// arbitrary characters at token boundaries of a valid program
		base := valid()
		var b strings.Builder
		placed := 0
		for i := 0; i < len(base); i++ {
			ch := base[i]
			boundary := i == 0 || strings.ContainsRune(" \t\n()[]{},;:.+-*/%^=<>!&|~", rune(base[i-1])) || strings.ContainsRune(" \t\n()[]{},;:.+-*/%^=<>!&|~", rune(ch))
			if boundary && ch < 0x80 && placed < 3 && r.chance(0.15) {
				b.WriteString(string(randRune(r)))
				placed++
			}
			b.WriteByte(ch)
		}
		if placed == 0 || r.chance(0.3) {
			if r.chance(0.5) {
				return []byte(string(randRune(r)) + b.String()), "unicode"
			}
			b.WriteString(pick(r, "", " ", "+") + string(randRune(r)))
		}
		return []byte(b.String()), "unicode"
	case c < 17 && r.chance(0.12):
		// degenerate inputs: nothing, only layout, only comments, a lone token
		return []byte(pick(r, "", " ", "\n", "\t \n ", "//", "// c", "// c\n", "/**/", "/* c */", "/* c */ // d\n ", ";", ";;", "()", "[]", "{}", "let", "let;", ",", ".", "\x00", "\ufeff", "\ufeff1", "1", "a", "\"\"", "''", "' '", "->", "=", "1;", "1;2", ";1")), "degenerate"
	case c < 17:
		base := valid()
		tail := pick(r, `"abc`, `"abc\`, "'abc", "/* abc", "/*", "/", "//", "// x", "/**", "/* *", "1+/*", "1 //", "\"\\", "a.", "a.b(", "[1,2", "{a:1", "{a:", "(((((", "1+", "-", "!", "->", "x->", "func f(", "let x=", "let", "if a then", "try 1 catch", "switch a case 1:", "\x00abc", "a\x00+", "\xff\xfe", "\xe2\x82", "1e", "1e+", "1..2", "²", "a²³", "a b c", "2a(b)c")
		if r.chance(0.5) {
			return []byte(base + pick(r, "", " ", "\n", "+") + tail), "unterminated"
		}
		return []byte(tail), "unterminated"
	case c < 18:
		n := r.rangeInt(1, 64)
		s := make([]byte, n)
		for i := range s {
			s[i] = byte(r.intn(256))
		}
		return s, "random-bytes"
	case c == 18 && r.chance(0.5):
		// flat operator chains over arguments and constants of every type (what the constant-folding
		// and re-association rules of the optimizer work on), without any call or closure
		consts := []string{"1", "2", "0", "2.5", "\"s\"", "\"\"", "true", "false", "[1]", "[]", "{k:1}", "-1", "1e3"}
		ops := []string{"*", "+", "&", "|", "=", "-", "/", "%", "^", "<", "!=", ">=", "<<", "~"}
		n := r.rangeInt(3, 9)
		if r.chance(0.1) {
			n = r.rangeInt(10, 200)
		}
		op := pick(r, ops...)
		var b strings.Builder
		for i := 0; i < n; i++ {
			if i > 0 {
				if r.chance(0.25) {
					op = pick(r, ops...)
				}
				b.WriteString(pick(r, "", " ") + op + pick(r, "", " "))
			}
			switch r.intn(5) {
			case 0, 1:
				b.WriteString(pick(r, "a", "b", "a", "b", "pi", "zz"))
			default:
				b.WriteString(pick(r, consts...))
			}
		}
		text := b.String()
		if r.chance(0.2) {
			text = "let c=" + pick(r, consts...) + "; " + strings.ReplaceAll(text, "zz", "c")
		}
		return []byte(text), "const-chain"
	case c == 18:
		// names of constants of every kind in every position (top level, so that the let is valid)
		for k := 0; k < 50; k++ {
			if t := g.rare(2); strings.HasPrefix(t, "let cq=") || strings.HasPrefix(t, "func cq(") {
				return []byte(t), "const-names"
			}
		}
		return []byte(valid()), "valid"
	case c == 19 && r.chance(0.5):
		// long postfix / operator chains
		unit := pick(r, "(1)", "[0]", ".a", ".size()", "+1", "*a", "-a-1", "&true", "(a)(b)", ".map(x->x)", "²", " a")
		head := pick(r, "[sqrt][0]", "f", "a", "[[1]]", "{a:{a:1}}", "x->x", "numbers(3)", "1")
		n := r.rangeInt(10, maxLen/(len(unit)+1))
		if r.chance(0.7) {
			n = r.rangeInt(10, 300)
		}
		return []byte(head + strings.Repeat(unit, n)), "chain"
	default:
		// nesting
		depth := r.rangeInt(10, maxLen/4)
		if r.chance(0.6) {
			depth = r.rangeInt(10, 120)
		}
		open, cl := pick(r, [2]string{"(", ")"}, [2]string{"[", "]"}, [2]string{"-(", ")"}, [2]string{"{a:", "}"}, [2]string{"(x->", ")"}, [2]string{"x->", ""}, [2]string{"(x,y)->", ""},
			[2]string{"if a then 1 else ", ""}, [2]string{"let x=1;", ""}, [2]string{"let x=a;", ""}, [2]string{"a+", ""}, [2]string{"!", ""}, [2]string{"f(", ")"}, [2]string{"a.m(", ")"},
			[2]string{"try ", " catch 1"}, [2]string{"[1,", "]"}, [2]string{"a[", "]"}, [2]string{"func f(x) ", "; f(1)"}), ""
		_ = cl
		var b strings.Builder
		for i := 0; i < depth && b.Len()+len(open[0])+len(open[1]) < maxLen-4; i++ {
			b.WriteString(open[0])
		}
		n := strings.Count(b.String(), open[0])
		// the innermost expression: a constant, an argument, a global constant, the nested
		// parameter, an unknown name
		b.WriteString(pick(r, "1", "1", "a", "b", "pi", "x", "zz", "a+x", "true"))
		if r.chance(0.8) { // sometimes leave it unbalanced
			for i := 0; i < n; i++ {
				b.WriteString(open[1])
			}
		}
		return []byte(b.String()), "nesting"
	}
}
