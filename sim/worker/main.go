package main

import (
	"bufio"
	"encoding/json"
	"flag"
	"fmt"
	"io"
	"log"
	"os"
	"runtime/debug"
	"sort"
	"time"
)

type Summary struct {
	T          string         `json:"t"`
	Prop       string         `json:"prop"`
	From       uint64         `json:"from"`
	To         uint64         `json:"to"`
	Cases      int            `json:"cases"`
	Invalid    int            `json:"invalid"`
	NonTrivial int            `json:"nontrivial"`
	WithVerd   int            `json:"with_verdicts"`
	Stats      RunStats       `json:"stats"`
	Fired      [8]int         `json:"fired"`
	Tags       map[string]int `json:"tags"`
	Classes    map[string]int `json:"classes"`
	Policies   map[string]int `json:"policies"`
	NumCPUs    map[string]int `json:"numcpus"`
	FPs        []string       `json:"fps"`
	Samples    []Sample       `json:"samples"`
	WallS      float64        `json:"wall_s"`
	Stopped    string         `json:"stopped,omitempty"`
	Partial    bool           `json:"partial,omitempty"`
}

type Sample struct {
	ID      string `json:"id"`
	Class   string `json:"class"`
	Program string `json:"program"`
	Args    []Arg  `json:"args,omitempty"`
	Host    any    `json:"host_tables,omitempty"`
	Sim     SimCfg `json:"sim"`
	Outcome string `json:"outcome"`
	FP      string `json:"fingerprint"`
}

type fpLine struct {
	T        string   `json:"t"`
	ID       string   `json:"id"`
	FP       string   `json:"fp"`
	Verdicts []string `json:"verdicts,omitempty"`
	Replay   string   `json:"replay,omitempty"`
	Out      string   `json:"out,omitempty"`
}

func sampleOf(c *Case, o *Obs) Sample {
	s := Sample{ID: o.ID, Class: o.Class, Sim: c.Sim, Outcome: trunc(o.Outcome, 80), FP: o.FP}
	s.Sim.Decisions = nil
	if sc, err := c.script(); err == nil {
		var parts []string
		for _, op := range sc.Setup {
			if op.Kind == "gen" {
				parts = append(parts, fmt.Sprintf("%q", trunc(op.text(), 240)))
			}
		}
		if len(parts) > 3 {
			parts = append(parts[:3], fmt.Sprintf("... (%d programs)", len(parts)))
		}
		s.Program = fmt.Sprint(parts)
		if len(sc.Clients) > 0 && len(sc.Clients[0]) > 0 {
			s.Args = sc.Clients[0][0].Args
			for i := range s.Args {
				if len(s.Args[i].L) > 8 {
					s.Args[i].L = s.Args[i].L[:8]
				}
			}
		}
		if len(sc.Host.Costs)+len(sc.Host.Fails)+len(sc.Host.Booms) > 0 {
			s.Host = sc.Host
		}
	}
	return s
}

func emit(w *bufio.Writer, v any) {
	b, err := json.Marshal(v)
	if err != nil {
		fmt.Fprintln(os.Stderr, "worker: marshal:", err)
		os.Exit(2)
	}
	w.Write(b)
	w.WriteByte('\n')
	w.Flush()
}

func runMode(args []string) {
	fs := flag.NewFlagSet("run", flag.ExitOnError)
	prop := fs.String("prop", "", "property id")
	tier := fs.String("tier", "quick", "quick|thorough")
	seed := fs.Uint64("seed", 1, "base seed")
	from := fs.Uint64("from", 0, "first run index")
	to := fs.Uint64("to", 100, "one past the last run index")
	maxWall := fs.Float64("maxwall", 0, "stop after this many seconds (0 = no limit)")
	announce := fs.Bool("announce", false, "print a begin line before every case")
	fplog := fs.Bool("fplog", false, "print one fingerprint line per case")
	fs.Parse(args)
	if *prop == "C05" {
		debug.SetMaxStack(192 << 20)
	}
	if *prop == "C04" {
		debug.SetMaxStack(512 << 20) // 64 KiB of nesting needs well under 100 MiB; runaway recursion is unbounded anyway
	}
	w := bufio.NewWriterSize(os.Stdout, 1<<16)
	sum := Summary{T: "sum", Prop: *prop, From: *from, To: *to, Tags: map[string]int{}, Classes: map[string]int{}, Policies: map[string]int{}, NumCPUs: map[string]int{}}
	fps := map[string]bool{}
	t0 := time.Now()
	tStart := t0
	for i := *from; i < *to; i++ {
		if *maxWall > 0 && time.Since(tStart).Seconds() > *maxWall {
			sum.Stopped = fmt.Sprintf("wall limit after %d cases", sum.Cases)
			sum.To = i
			break
		}
		c := genCase(*prop, *tier, *seed, i)
		if *announce {
			emit(w, map[string]any{"t": "begin", "id": c.ID, "class": c.Class})
		}
		o := exec(c)
		sum.Cases++
		if o.Invalid != "" {
			sum.Invalid++
			emit(w, map[string]any{"t": "invalid", "id": c.ID, "why": o.Invalid, "case": c})
			continue
		}
		if o.NonTrivial {
			sum.NonTrivial++
			fps[o.FP] = true
		}
		sum.Stats.Runs += o.Stats.Runs
		sum.Stats.Yields += o.Stats.Yields
		sum.Stats.Decisions += o.Stats.Decisions
		sum.Stats.SimTime += o.Stats.SimTime
		sum.Stats.Tasks += o.Stats.Tasks
		if o.Stats.MaxLive > sum.Stats.MaxLive {
			sum.Stats.MaxLive = o.Stats.MaxLive
		}
		sum.Stats.Switches += o.Stats.Switches
		sum.Stats.SelMulti += o.Stats.SelMulti
		sum.Stats.PickMulti += o.Stats.PickMulti
		sum.Stats.Timers += o.Stats.Timers
		sum.Stats.Stalls += o.Stats.Stalls
		sum.Stats.Preempts += o.Stats.Preempts
		sum.Stats.Rendezv += o.Stats.Rendezv
		for k, v := range o.Fired {
			sum.Fired[k] += v
		}
		for _, t := range o.Tags {
			sum.Tags[t]++
		}
		sum.Classes[o.Class]++
		sum.Policies[c.Sim.Policy]++
		sum.NumCPUs[fmt.Sprint(c.Sim.NumCPU)]++
		if len(sum.Samples) < 3 && o.NonTrivial {
			sum.Samples = append(sum.Samples, sampleOf(c, o))
		}
		if *fplog {
			l := fpLine{T: "fp", ID: o.ID, FP: o.FP, Out: o.OutDigest}
			if os.Getenv("VERIF_REPLAYCHECK") != "" && o.Invalid == "" {
				// replay self-test: the run under test, re-executed from its recorded decision
				// list, must produce the identical event log
				rc := genCase(*prop, *tier, *seed, i)
				rc.resolveLike(c)
				rc.Sim.UseDecs = true
				rc.Sim.Decisions = o.TestDecisions
				ro := exec(rc)
				l.Replay = ro.FP
			}
			for _, v := range o.Verdicts {
				l.Verdicts = append(l.Verdicts, v.Sig)
			}
			emit(w, l)
		}
		if len(o.Verdicts) > 0 {
			sum.WithVerd++
			emit(w, map[string]any{"t": "obs", "obs": o})
		}
		if *announce && sum.Cases >= 25 && i+1 < *to {
			// partial summary: if the process dies on a later case, the work done so far is still counted
			part := sum
			part.To = i + 1
			for k := range fps {
				part.FPs = append(part.FPs, k)
			}
			part.WallS = time.Since(t0).Seconds()
			part.Partial = true
			emit(w, part)
			sum = Summary{T: "sum", Prop: *prop, From: i + 1, To: *to, Tags: map[string]int{}, Classes: map[string]int{}, Policies: map[string]int{}, NumCPUs: map[string]int{}}
			fps = map[string]bool{}
			t0 = time.Now()
		}
	}
	for k := range fps {
		sum.FPs = append(sum.FPs, k)
	}
	sort.Strings(sum.FPs)
	sum.WallS = time.Since(t0).Seconds()
	emit(w, sum)
}

func serveMode() {
	in := bufio.NewReaderSize(os.Stdin, 1<<20)
	w := bufio.NewWriterSize(os.Stdout, 1<<16)
	for {
		line, err := in.ReadBytes('\n')
		if len(line) > 1 {
			var c Case
			if e := json.Unmarshal(line, &c); e != nil {
				emit(w, map[string]any{"t": "obs", "obs": Obs{Invalid: "bad case json: " + e.Error()}})
			} else {
				if c.Prop == "C05" {
					debug.SetMaxStack(192 << 20)
				}
				if c.Prop == "C04" {
					debug.SetMaxStack(512 << 20)
				}
				emit(w, map[string]any{"t": "begin", "id": c.ID})
				o := exec(&c)
				emit(w, map[string]any{"t": "obs", "obs": o})
			}
		}
		if err != nil {
			if err != io.EOF {
				fmt.Fprintln(os.Stderr, "worker: read:", err)
			}
			return
		}
	}
}

func genMode(args []string) {
	fs := flag.NewFlagSet("gen", flag.ExitOnError)
	prop := fs.String("prop", "", "property id")
	tier := fs.String("tier", "quick", "quick|thorough")
	seed := fs.Uint64("seed", 1, "base seed")
	idx := fs.Uint64("i", 0, "run index")
	fs.Parse(args)
	c := genCase(*prop, *tier, *seed, *idx)
	b, _ := json.Marshal(c)
	fmt.Println(string(b))
	if c.Pipe != nil {
		t, err := c.Pipe.render()
		fmt.Fprintln(os.Stderr, "text:", t, err)
	}
}

func main() {
	log.SetOutput(io.Discard)
	if len(os.Args) < 2 {
		fmt.Fprintln(os.Stderr, "usage: worker smoke|run|serve|gen ...")
		os.Exit(2)
	}
	switch os.Args[1] {
	case "smoke":
		smoke(os.Args[2:])
	case "run":
		runMode(os.Args[2:])
	case "serve":
		serveMode()
	case "gen":
		genMode(os.Args[2:])
	case "info":
		b, _ := json.Marshal(map[string]any{"c05_boundary_base": boundaryEnumBase, "c05_boundary_combos": boundaryCombos()})
		fmt.Println(string(b))
	default:
		fmt.Fprintln(os.Stderr, "unknown mode", os.Args[1])
		os.Exit(2)
	}
}
