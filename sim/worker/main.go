package main

import (
	"fmt"
	"io"
	"log"
	"os"
)

func main() {
	log.SetOutput(io.Discard)
	if len(os.Args) < 2 {
		fmt.Fprintln(os.Stderr, "usage: worker smoke|run|serve ...")
		os.Exit(2)
	}
	switch os.Args[1] {
	case "smoke":
		smoke(os.Args[2:])
	default:
		fmt.Fprintln(os.Stderr, "unknown mode", os.Args[1])
		os.Exit(2)
	}
}
