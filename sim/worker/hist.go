package main

func genC09(r *rng, tier string) *Case        { return &Case{} }
func genC10(r *rng, tier string, n int) *Case { return &Case{} }
func execHist(c *Case, sc *Script, o *Obs)    { o.Invalid = "not implemented" }
