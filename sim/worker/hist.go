package main

import (
	"encoding/json"
	"fmt"
	"strings"
	"time"
)

// ---------- program library for C10 / C11 (arguments: a, b ints, src list) ----------

var histProgs = []string{
	"let l=numbers(9).map(x->x*2); l[a]",
	"let l=numbers(9).map(x->x*2); l.append(a).size()+l.size()",
	"let l=numbers(9).map(x->x*2); l.append(a).append(b).string()",
	"let l=[1,2,3]; l.append(a).string()+l.string()",
	"let m={x:1,y:[1,2]}; m.put(\"z\",a).string()",
	"let m={f: x->x+1, g: x->x*2}; m.f(a)+m.g(b)",
	"func fib(n) if n<2 then n else fib(n-1)+fib(n-2); fib(a%15)",
	"let k=5; let add=x->y->x+y+k; add(a)(b)",
	"try [1,2,3][a] catch -1",
	"if a%2=0 then throw(\"even\") else a",
	"src.map(x->x*a).reduce((p,q)->p+q)",
	"src.map(x->cost(0,x)*2).top(b+1).sum()",
	"src.map(x->cost(0,x)+a)",
	"numbers(a*10).map(x->cost(0,x)).accept(x->x%3=0).size()",
	"let l=numbers(12).map(x->x+1).eval(); l.reverse().first()+l.first()+a",
	"let big=numbers(40).map(x->x*x); big.top(a).sum()",
	"src.multiUse({s: l->l.sum(), n: l->l.size()}).s+a",
	"numbers(a+2).merge(src, (p,q)->p<q).string()",
	"let c=numbers(8).order(x->0-x); c[a%8]+c.size()",
	"src.groupByEqual(x->x%3).map(g->g.values.size()).string()",
	"a%(b-2)",
	"let l=numbers(5).map(x->fail(1,x)); try l.sum() catch a",
	"let l=numbers(7).map(x->x*3); let m=l.append(a); let n=l.append(b); [l.size(), m.last(), n.last()].string()",
	"let l=numbers(9).map(x->x+1); (a ~ l) & (l.size()=9)",
	"let l=numbers(9).map(x->x+1); l.indexWhere(x->x>a)+(if l.present(x->x=b) then 1 else 0)",
	"let m={a:numbers(4).map(x->x*x), b:2}; m.a[a%4]+m.b",
	"let l=numbers(6).combine((p,q)->p+q); l.append(a).sum()+l[b%5]",
	"src.map(x->cost(0,boom(1,x))).sum()",
	"let t=numbers(30).map(x->x%7).order(x->x); t.top(a%5+1).string()",
	"let l=numbers(10).map(x->x*2); l.set(a%10, b).sum()+l.sum()",
	// built-in static functions and methods with argument-dependent values
	"max(a,b,a+b)*1000000+min(a,b,a-b)",
	"min(a)+max(b)+min(a,b)*7+max(a,b)",
	"sprintf(\"%d-%v-%s\", a, b, \"x\"+a)",
	"abs(a-b*3)+sqr(a)+round(a/3)+int(float(a)/2)+sign(b-a)",
	"(\"ab \"+a+\" cd\").trim().toUpper().replace(\"B\",\"\"+b).len()",
	"(\"k\"+a+\",\"+b+\",z\").split(\",\").map(s->s.len()).string()",
	"(\"hello\"+a).cut(1,3)+(\"x\"+b).indexOf(\"\"+b)+(\"q\"+a).contains(\"\"+a)",
	"bisection(x->x*x-a-1, 0, 100)>0",
	"[a,b,3,a*b].max()*100+[a,b,3].min()+[a,b].mean()",
	"switch a%3 case 0: \"z\"+b case 1: b default a+b",
	"let m={p:a, q:b}; m.map((k,x)->x*2).accept((k,x)->x>=0).list().size()+m.get(\"p\")",
	"let m={p:a, q:[b,a]}; m.put(\"r\",b).replace(x->{p:a+1}).string()",
	"{u:a}.isAvail(\"u\",\"w\").string()+({u:a}+{w:b}).size()",
	"numbers(a%7+2).minMax(x->(x-b)*(x-b)).minItem+numbers(a%5+1).mapReduce(b,(s,x)->s+x)",
	"binAnd(a,b)+binOr(a,b)+(a<<2)+(a>>1)+a%(b+1)",
	"string(a)+string([a,b])+string({z:a})",
	"numbers(a%9+1).order(x->(x*7+b)%5).string()",
	"numbers(a%9+3).iir(x->x+b,(x,l)->x+l).last()+numbers(a%6+2).combine((p,q)->p*q+b).sum()",
	"numbers(a%8+2).visit({s:0,n:b},(v,x)->{s:v.s+x,n:v.n+1}).s",
	"numbers(a%6+2).fsm((s,x)->goto((s.state+x+b)%3)).map(s->s.state).string()",
	"numbers(a%5+2).cross([b,1],(p,q)->p*q).sum()+numbers(a%4+2).combine3((p,q,r)->p+q+r+b).size()",
	"(if a>b then (x->x+a) else (x->x*b))(3)+(x->y->z->x*100+y*10+z)(a)(b)(1)",
	// methods that return functions or aggregate records
	"let ip=[{x:0,y:0},{x:1,y:10},{x:2,y:15},{x:4,y:0}].createInterpolation(p->p.x,p->p.y); ip(a%5)*1000+ip(b/2)",
	"[{x:0,y:b},{x:1,y:a},{x:2,y:a+b}].createInterpolation(p->p.x,p->p.y)(0.5)",
	"numbers(a%5+3).map(i->{x:i,y:i*b+1}).linearReg(p->p.x,p->p.y).a",
	"numbers(a%6+2).mean()+numbers(b+2).map(x->x*2).orderRev(x->x).first()",
	"numbers(a%7+2).groupByInt(x->x%3).size()+numbers(a%5+2).uniqueInt(x->x%2).size()+numbers(a%5+2).map(x->\"s\"+x%2).groupByString(s->s).size()+numbers(a%5+2).map(x->\"s\"+x%3).uniqueString(s->s).size()",
	"numbers(a%6+3).movingWindow(x->x).map(l->l.size()).string()",
	"numbers(a%5+3).movingWindowRemove(l->l.size()>b+1).map(l->l.size()).string()",
	"numbers(a%6+3).iirApply({initial: x->x, filter: (i,j,l)->j-i+l+b}).last()",
	"numbers(a%5+2).replaceList(l->l.size()+b)",
	"(\"12\"+a).toInt()+(\"1.5\").toFloat()+(\"a=b\"+b).behind(\"=\").len()",
	"floor(a/3)+ceil(b/2)+trunc(a/2)+int(sqrt(a*a))+(if isInt(a) then 1 else 0)+(if isFloat(a/2) then 1 else 0)+round(exp(0)+sin(0)+cos(0)+ln(1)+log10(1))",
	"numbers(a%9+3).binning(0,2,3,x->x,x->1+b).string()",
	"let lp=createLowPass(\"f\", p->p.t, p->p.v, 2); numbers(a%5+2).map(i->{t:i,v:i*b}).iirApply(lp).map(p->p.f).last()",
	"goto(a%3).state+{state:b}.state",
	// views of constant lists extended afterwards
	"let c=numbers(9).map(x->x*2); c[a%9]+c.top(a%9).append(0-1).size()*1000+c[8]",
	"let c=numbers(9).map(x->x*2); c.size()+c.skip(a%5).append(b).last()+c.append(a).last()*1000",
	"let c=[1,2,3].append(4); c.top(a%4).append(b).string()+c.string()",
	"let c=numbers(6).map(x->x+1).eval(); c.reverse().append(a).first()+c.order(x->0-x).append(b).last()+c[a%6]",
	"let c=numbers(8).map(x->x*x); (c.top(a%8)+c.skip(b)).append(a).size()+c[a%8]",
	"let m={p:1,q:2}+{r:3}; (m+{s:a}).s+(m+{t:b}).t+m.size()",
	"let m={p:1,q:2}; m.replace(x->{p:a}).replace(x->{p:b}).p+m.p+m.replace(x->{q:a}).q",
	"let s=\"a,b,c\".split(\",\"); s.append(\"x\"+a).size()+s.size()+s.top(a%3).append(\"y\").size()",
	"let c=numbers(5).map(x->[x,x+1]); c[a%5].append(b).size()+c[a%5].size()",
	"let c=numbers(7).map(x->x+1); (c = numbers(a%9).map(x->x+1)) | (c.top(a%7) = numbers(a%7).map(x->x+1))",
	// constant lazy pipelines of several stages, consumed lazily (never materialised) by closures that
	// depend on the arguments: every evaluation re-runs the constant's stages
	"let c=numbers(14).number((n,x)->n*100+x).map(x->x+1); c.map(x->x*a).reduce((p,q)->p+q)+c.accept(x->x%3=b%3).reduce((p,q)->p+q)",
	"let c=numbers(14).combine((p,q)->p+q).map(x->x*2).accept(x->x%3!=0); c.map(x->x+a).reduce((p,q)->p+q)*1000+c.map(x->x*b).last()",
	"let c=numbers(14).iir(x->x,(x,l)->(x+l)%1009).accept(x->x%2=0).map(x->x+5); c.reduce((p,q)->p+q+a)+c.mapReduce(b,(s,x)->s+x)",
	"let c=numbers(14).combine3((p,q,r)->p+q*2+r).map(x->x%17); c.map(x->x+a).minMax(x->x).maxItem+c.map(x->x-b).first()",
	"let c=numbers(14).compact((p,q)->p/3=q/3).map(x->x*x); c.map(x->x+a).string()+c.accept(x->x>b).string()",
	"let c=numbers(5).cross([1,2,3],(p,q)->p*10+q).accept(x->x%4!=1); c.map(x->x*a).reduce((p,q)->p+q)+c.indexWhere(x->x>b*3)",
	"let c=numbers(9).merge(numbers(7).map(y->y*2+1),(p,q)->p<q).map(x->x+1); c.map(x->x*a).reduce((p,q)->p+q)+c.top(b%9+1).reduce((p,q)->p+q)",
	"let c=numbers(14).iirCombine(x->x,(i,j,l)->(j-i+l)%1009).map(x->x*3); c.visit(a,(v,x)->(v*31+x)%1000003)+c.map(x->x+b).last()",
	"let c=numbers(14).fsm((s,x)->goto((s.state+x)%3)).map(s->s.state); c.map(x->x+a).reduce((p,q)->p*3+q)+c.accept(x->x=b%3).size()",
	"let c=numbers(14).combineN(3,l->l[0]+l[2]).map(x->x+1); c.map(x->x*a).reduce((p,q)->p+q)+c.skip(b%5).first()",
	"let c=numbers(14).map(x->x*2).number((n,x)->n+x).accept(x->x%5!=0); src.map(x->c.map(y->y*x+a).reduce((p,q)->p+q)).string()",
	"let c=(numbers(6).map(x->x+1)+numbers(6).number((n,x)->n*x)).map(x->x*2); c.map(x->x+a).reduce((p,q)->p+q)+(if c.present(x->x=b*2) then 1 else 0)",
	// constant lazy lists with an element that fails: every evaluation that reaches it has to fail again
	"let c=[1,2,\"x\",4].map(e->e*2); c[a%4]",
	"let c=[1,2,\"x\",4].map(e->e*2); try c.size()+a catch c[a%2]",
	"let c=numbers(8).map(e->if e=5 then e.nokey else e+1); c.append(a).size()+b",
	"let c=numbers(8).map(e->if e=5 then e.nokey else e+1); try c.reverse().first() catch c[a%5]+c.top(5).size()",
	"let c=numbers(8).accept(e->if e=6 then e.nokey else e%2=0); (c = [0,2,4]) | (a=b)",
	"let c=numbers(8).map(e->[e,e+1].map(x->if x=7 then x.nokey else x)); try c[a%8].sum() catch 0-1",
	"let m={l:[3,\"q\",5].map(e->e+1), n:a}; try m.l[b%3] catch m.n",
	// let-bound values whose dependency on the arguments sits in every syntactic position
	"let k=switch true case a<3: \"low\" case a=3: \"mid\" default \"high\"; k+b",
	"let k=switch 1 case a%2: \"odd\" default \"even\"; let j=switch b case a: \"same\" case a+1: \"next\" default \"far\"; k+j",
	"let k=try [1,2,3][a%5] catch 0-1; k*100+b",
	"let k=if a>b then \"x\" else \"y\"; let j=if a%2=0 then k+k else k; j",
	"let k={p:1,q:2}.get(if a%2=0 then \"p\" else \"q\"); let j=[10,20,30][a%3]; k*1000+j+b",
	"let f=x->switch true case x<a: 0 case x=a: 1 default 2; [f(b), f(a), f(a+1), f(0)].string()",
	"let k=\"abcdef\".cut(a%3, 1+b%2); let t=(x->y->x*10+y)(a); k+t(b)",
	"let m={x:a, y:[b,a]}; let k=m.x+m.y[0]; let n=m.put(\"z\", k); n.z*10+n.y.size()",
	"func g(n) switch true case n<a: 0 case n<a+b: 1 default n; g(b)+g(a)*10+g(a+b)*100",
	"let k=sprintf(\"%d|%v\", a, [b]); let j=k.len(); k+j",
	"let c=[1,2,3,4,5,6]; let k=c.accept(x->x%(a%3+2)=0); let j=c.map(x->x+b).top(a%4+1); k.string()+j.string()",
	"let k=(x->if x>a then x-a else a-x); let w={f:k, g:y->k(y)+b}; w.f(b)+w.g(0)*1000",
	// one call site, receivers of varying kind between evaluations (maps with and without the field,
	// lists, strings): what a call site learns from one receiver must not leak to the next
	"(if a%2=0 then {f:x->x+b} else {g:b}).f(3)",
	"try (if a%3=0 then {g:1} else {f:x->x*a}).f(b) catch 0-1",
	"[{f:x->x+1},{h:2},{f:x->x*2}][a%3].f(b)",
	"[[1,2],[3],numbers(4)][a%3].size()+[\"x\", 12, [1]][b%3].string().len()",
	"try [[1,2],\"ab\",5,{size:x->7}][a%4].size() catch 0-1",
	"let m=if a%2=0 then {get:x->x+1} else {p:b}; try m.get(\"p\") catch 0-2",
	// big constant map literals (lookup tables) used by every evaluation
	"let t={k0:0,k1:10,k2:20,k3:30,k4:40,k5:50,k6:60,k7:70,k8:80,k9:90,k10:100,k11:110}; t.get(\"k\"+a%12)+t.get(\"k\"+b%12)*1000",
	"let t={k0:0,k1:10,k2:20,k3:30,k4:40,k5:50,k6:60,k7:70,k8:80,k9:90,k10:100,k11:110}; (if (\"k\"+a%14) ~ t then 1 else 0)+(if t.isAvail(\"k\"+b%12) then 10 else 0)+t.k3+t.size()*100",
	"let t={k0:0,k1:10,k2:20,k3:30,k4:40,k5:50,k6:60,k7:70,k8:80,k9:90,k10:100,k11:110}; t.put(\"n\"+a, b).size()+(t+{z:a}).z+t.k7+t.accept((k,v)->v>a*10).size()*100",
	"let t={k0:0,k1:10,k2:20,k3:30,k4:40,k5:50,k6:60,k7:70,k8:80,k9:90,k10:100,k11:110}; src.map(x->t.get(\"k\"+x%12)+a).reduce((p,q)->p+q)+t.k1*b",
	"let t={k0:0,k1:10,k2:20,k3:30,k4:40,k5:50,k6:60,k7:70,k8:80,k9:90,k10:100,k11:110}; let u=t.map((k,v)->v+a); u.k2+u.k11+t.k2",
	// index access on lazy lists inside the closures of stages that keep their arguments on the stack,
	// with the indexed table itself a lazy constant of that kind (nested lazy evaluation)
	"let t=[10,20,30].number((j,y)->j*y); src.number((i,x)->t[i%3]+x)[a%3]",
	"let t=numbers(5).combine((p,q)->p*q); numbers(4).iir(x->t[x], (x,l)->t[x%4]+l)[b%4]+t[a%4]",
	"let t=numbers(6).iir(x->x,(x,l)->x+l); src.combine((p,q)->t[p%6]+q)[a%2]",
	"let t=[3,1,2].number((j,y)->[j,y]); numbers(3).number((i,x)->t[i][1]+x)[a%3]+t[b%3][0]",
	"let t=numbers(4).combine3((p,q,r)->p+q+r); let u=numbers(5).number((i,x)->i*x); numbers(3).fsm((s,x)->goto((s.state+u[x]+t[x%2])%3)).map(s->s.state)[a%3]",
	"let t=numbers(5).compact((p,q)->p=q).number((i,x)->x*x); if a%2=0 then src.number((i,x)->t[i%5]+x)[0] else t[b%5]",
	// long chains of one operation on a constant map or list, with a length that depends on the arguments
	// (representations that reorganise themselves at some depth or size)
	"numbers(a%17+2).mapReduce({sum:0,cnt:0,tag:7}, (m,i)->m.replace(mm->{sum:mm.sum+i, cnt:mm.cnt+1})).string()",
	"let base={p:1,q:2}; numbers(a%16+b+3).mapReduce(base, (m,i)->m.replace(mm->{p:mm.p+i})).p*1000+base.p",
	"let base={p:1,q:2}; numbers(a%16+3).mapReduce(base, (m,i)->m.put(\"k\"+i, i)).size()*1000+base.size()+numbers(a%13+b).mapReduce(base, (m,i)->m+{z:i}).z",
	"let base=[1,2,3]; numbers(a%20+2).mapReduce(base, (l,i)->l.append(i)).size()*1000+base.size()+numbers(a%12+1).mapReduce(base, (l,i)->l.set(0,i))[0]",
	"func deep(m,n) if n=0 then m else deep(m.replace(x->{c:x.c+n}), n-1); deep({c:0,d:1}, a%15+b).c",
	// comparison of a constant lazy list with an argument-dependent list that fails somewhere: the outcome
	// must not depend on whether the constant has been materialised by an earlier evaluation
	"let k=numbers(3).map(i->i+1); k = src.map(e->if e=b then e.nokey else e*2)",
	"let k=numbers(4).map(i->i*2); (k != src.map(e->if e>a then e.nokey else e)) | (a=b)",
	"let k=[1,2,3].map(i->i); switch src.map(e->if e=b then e.nokey else e) case k: 1 default 0",
	"let k=numbers(3).map(i->i+1); [k = src.top(a%4).map(e->if e=b then e.nokey else e), k.size()=a].string()",
	"let k=numbers(3).map(i->[i]); [[0],[1],[b]] ~ k.map(e->if e[0]=a then e.nokey else e)",
	// a constant list that is used again (read, indexed, appended to) inside its own iteration
	"let c=numbers(9).map(x->x*2); c.map(x->c.size()+x+a).reduce((p,q)->p+q)+c.append(b).size()",
	"let c=numbers(6).map(x->x+1).eval(); c.cross(c,(p,q)->p*q+a).reduce((p,q)->p+q)+c.append(a).last()",
	"let c=[1,2,3,4]; c.map(x->c[x%4]+c.append(x+a).size()).string()",
	"let c=numbers(7).map(x->x+1); c.accept(x->x ~ c).map(x->c.append(x).size()+b).reduce((p,q)->p+q)+c[a%7]",
}

func genHistArgs(r *rng) []Arg {
	a := pick(r, 0, 1, 2, 3, 5, 8, 9, 20, 50)
	b := pick(r, 0, 1, 2, 7)
	var src Arg
	switch r.intn(4) {
	case 0:
		n := pick(r, 0, 1, 5, 20, 40)
		l := make([]int, n)
		for i := range l {
			l[i] = (i*7 + 3) % 23
		}
		src = Arg{K: "ints", L: l}
	case 1, 2:
		src = Arg{K: "nums", I: pick(r, 0, 1, 13, 30, 60)}
	default:
		n := pick(r, 5, 20, 40)
		src = Arg{K: "hostlist", I: n, FailAt: 1 + r.intn(n), FailOn: pick(r, 1, 1, 2)}
	}
	return []Arg{{K: "int", I: a}, {K: "int", I: b}, src}
}

func genC10(r *rng, tier string, clients int) *Case {
	nProg := r.rangeInt(1, 4)
	var setup []Op
	used := map[int]bool{}
	for i := 0; i < nProg; i++ {
		p := r.intn(len(histProgs))
		for used[p] {
			p = r.intn(len(histProgs))
		}
		used[p] = true
		setup = append(setup, Op{Kind: "gen", Text: histProgs[p], ArgNames: []string{"a", "b", "src"}, Fn: i})
	}
	nfn := nProg + 2
	if clients == 0 {
		clients = pick(r, 2, 2, 3, 4, 8, 16)
	}
	total := r.rangeInt(4, 24)
	if tier == "thorough" {
		total = r.rangeInt(4, 50)
	}
	pool := make([][]Arg, r.rangeInt(1, 4))
	for i := range pool {
		pool[i] = genHistArgs(r)
	}
	cl := make([][]Op, clients)
	for i := 0; i < total; i++ {
		c := r.intn(clients)
		var op Op
		if clients == 1 && r.chance(0.08) {
			// another Generate on the same generator in between: also with other argument names
			// (the same names in another order, fewer, different ones) and with texts that fail
			op = Op{Kind: "gen", Text: histProgs[r.intn(len(histProgs))], ArgNames: []string{"a", "b", "src"}, Fn: nProg + r.intn(2)}
			switch r.intn(10) {
			case 0, 1:
				op.ArgNames = []string{"b", "a", "src"}
			case 2:
				op.ArgNames = []string{"src", "b", "a"}
			case 3:
				op.Text = pick(r, "a+", "let x=1; let x=2; x", "nosuch(a)", "a.b.c(", "[1,2", "a+zz", "func f(x) g(x); f(a)", "")
			case 4:
				op.Text = pick(r, "x*2+y", "let a=x; a+y", "[x,y].map(a->a+1).string()")
				op.ArgNames = []string{"x", "y", "z"}
			}
		} else {
			fn := r.intn(nProg)
			if clients == 1 && r.chance(0.1) {
				fn = nProg + r.intn(2) // may not be generated yet: skipped
			}
			op = Op{Kind: "eval", Fn: fn, Args: pick(r, pool...), Consume: pick(r, -1, -1, -1, 0, 1, 3)}
			if r.chance(0.2) {
				op.Args = genHistArgs(r)
			}
		}
		cl[c] = append(cl[c], op)
	}
	// results left unconsumed or half consumed are consumed later, after other evaluations
	for c := range cl {
		slot := 0
		var out []Op
		pending := map[int]Op{} // position in out at which to emit -> force op
		for _, op := range cl[c] {
			if op.Kind == "eval" && slot < 8 && r.chance(0.3) {
				op.Store = slot + 1
				op.Consume = pick(r, 0, 0, 1, 3)
				at := len(out) + 1 + r.rangeInt(1, 4)
				for {
					if _, busy := pending[at]; !busy {
						break
					}
					at++
				}
				pending[at] = Op{Kind: "force", Args: []Arg{{K: "handle", I: slot}}, Ref: len(out)}
				slot++
			}
			out = append(out, op)
			for {
				f, ok := pending[len(out)]
				if !ok {
					break
				}
				delete(pending, len(out))
				out = append(out, f)
			}
		}
		// flush what is still pending, in order of position
		for len(pending) > 0 {
			best := -1
			for at := range pending {
				if best < 0 || at < best {
					best = at
				}
			}
			out = append(out, pending[best])
			delete(pending, best)
		}
		cl[c] = out
	}
	host := HostTables{Costs: []CostProf{{Base: pick(r, int64(0), 0, 300_000, 400_000)}}, Fails: []Match{{}, {Kind: "eq", A: 3}}, Booms: []Match{{}, {Kind: "eq", A: pick(r, 2, 17, 1000)}}}
	sim, stalls := genSim(r, true, true)
	if clients > 1 && sim.Policy == "canonical" {
		sim.Policy = "pct"
		sim.PCTDepth = 2
	}
	sc := &Script{Setup: setup, Clients: cl, Host: host, NFn: nfn, NHandle: 8}
	return &Case{Class: fmt.Sprintf("clients=%d", clients), Sim: sim, StallF: stalls, Script: sc}
}

// ---------- C09: histories over a pool of handles ----------

// derive programs over handles h (and g) plus small ints i, v
var c09Derive = []string{
	"h.append(v)",
	"h.append(v).append(i)",
	"h.set(i%(h.size()+1), v)",
	"h.reverse()",
	"h.order(x->0-x)",
	"h.orderLess((p,q)->p>q)",
	"h+g",
	"h.top(i)",
	"h.skip(i)",
	"h.map(x->x+v)",
	"h.accept(x->x%2=0)",
	"h.eval()",
	"h.combineN(2, l->l)",
	"h.combineN(3, l->l).map(l->l.size())",
	"h.movingWindow(x->x)",
	"[h, g]",
	"{a:h, b:g}.a",
	"h.map(x->cost(0,x)+v)",
	"h.map(x->fail(1,x))",
	"h.map(x->fail(1,x)).eval()",
	"h.combine((p,q)->p+q)",
	"h.number((n,x)->x+n)",
	"g.cross(h, (p,q)->p+q).top(20)",
	"h.merge(g, (p,q)->p<q)",
	"h.iir(x->x, (x,l)->x+l)",
	"h.groupByEqual(x->x%3)",
	"h.replaceList(l->l.append(v))",
	"h.compact((p,q)->p=q)",
	"h.top(i).append(v)",
	"h.skip(i).append(v)",
	"h.reverse().append(v)",
	"h.eval().append(v)",
	"h.map(x->x).eval().set(i%3, v)",
	"h.order(x->x).top(i)",
	"h.orderRev(x->x)",
	"h.append(v).reverse()",
	"h.top(i)+g.skip(i)",
	"(h+g).append(v)",
	"h.number((n,x)->[n,x])",
	"h.map(x->[x,v])",
	"h.map(x->{e:x,w:[x,v]})",
	"h.combine3((p,q,r)->p+q+r)",
	"h.iirCombine(x->x, (a,b,l)->b-a+l)",
	"h.fsm((s,x)->goto((s.state+1)%2)).map(s->s.state)",
	"h.movingWindowRemove(l->l.size()>2)",
	"h.multiUse({s: l->l.top(3), n: l->l.size()}).s",
	"h.map(x->\"k\"+x%3).map(s->s.split(\"k\"))",
	"h.binning(0,2,3,x->x,x->1).values",
	"h.visit([], (acc,x)->acc.append(x))",
	"h.mapReduce([v], (acc,x)->acc.append(x))",
	"h.reduce((p,q)->p+q)",
	"g.indexWhere(x->x>v)",
	// boundary and out-of-range parameters of the view operations
	"h.skip(0-i)", "h.top(0-i)", "h.skip(i-2)", "h.top(i-2)", "h.skip(i+v)", "h.top(i+v)", "h.skip(0-1).map(x->x)", "h.top(i).skip(0-i)",
	"h.skip(i).skip(0-i).append(v)", "h.map(x->x).skip(0-2)", "h.set(0-i, v)", "h.combineN(0-i, l->l)", "h.movingWindow(x->0-x)",
	// nested values handed out by an operation (windows, groups, buffers, accumulators), extended afterwards
	"h.movingWindow(x->x)[i].append(v)",
	"h.movingWindow(x->x).map(w->w.append(v))",
	"h.movingWindow(x->x).first().append(v).append(i)",
	"h.movingWindowRemove(l->l.size()>2)[i].append(v)",
	"h.movingWindowRemove(l->l.size()>3).map(w->w.append(v).size())",
	"h.combineN(3, l->l.append(v))",
	"h.groupByEqual(x->x%3).map(e->e.values.append(v))",
	"h.groupByInt(x->x%2).order(e->e.key).map(e->e.values.append(v))", // (the order of groups is unspecified: fixed here)
	"h.map(x->[x,v])[i].append(v)",
	"[h, g][i%2].append(v)",
	"{a:h, b:g}.a.append(v)",
	"h.movingWindow(x->x)[i].set(0, v)",
	"h.movingWindow(x->x)[i].reverse().append(v)",
	"h.top(i).movingWindow(x->x).last().append(v)",
}
var c09DeriveMap = []string{
	"m.put(\"n\"+v, v)",
	"m.replace(x->{k0:v})",
	"m+{zz:v}",
	"m.map((k,x)->x+v)",
	"m.accept((k,x)->x%2=0)",
	"{inner:m, l:h}",
	"m.put(\"l\", h)",
	"m.put(\"n\"+v, v).put(\"o\"+i, i)",
	"m+{yy:i}",
	"m+{p:v, q:i}",
	"m.accept((k,x)->k!=\"k0\")",
	"(m+{w:v}).accept((k,x)->k!=\"w\")",
	"m.eval()",
	"m.replaceMap(x->x.put(\"rm\"+v, v))",
	"m.combine({k0:v, yy:i}, (a,b)->a+b)",
	"m.put(\"l\", [v, i]).put(\"mm\", {z:v})",
	"m.replace(x->{k0:v}).replace(x->{k1:i})",
	"m.map((k,x)->[x,v])",
	// long chains of single puts (the append-only representation), branched afterwards
	"numbers(i+7).mapReduce(m, (acc,x)->acc.put(\"c\"+x, x+v))",
	"numbers(i+4).mapReduce(m.put(\"k2\", v), (acc,x)->acc.put(\"c\"+x, x))",
	"m.put(\"k2\", v)",
	"m.put(\"k2\", i)",
}

// operations that only read (their result is dropped): the operands must look the same afterwards
var c09ReadOnly = []string{
	"h ~ g", "g ~ h", "[v, i] ~ h", "h.top(3) ~ g", "h.reverse() ~ h", "[h.last(), h.first()] ~ h", "h.order(x->0-x) ~ h",
	"h = g", "h.size()", "h.string()", "h.first()", "h.last()", "h.reduce((p,q)->p+q)", "h.minMax(x->x)", "h.present(x->x=v)", "h[i%(h.size()+1)]",
	"h.indexWhere(x->x>v)", "h.mean()", "h.sum()", "v ~ h", "h.top(2) = g.top(2)", "h.multiUse({a:l->l.size(), b:l->l.first()})",
}

// keys the map operations above can create: looked up one by one by the lookup observer
const c09LookupObserver = `["a","b","c","k0","k1","k2","zz","yy","p","q","w","l","mm","inner","n5","n6","n7","n100","o0","o1","o2","o3","o7","rm5","rm6","rm7","rm100","c0","c1","c5","c7","c9","z","k8","k9","k10","k11"].map(k->[m.isAvail(k), try m.get(k) catch "none", k ~ m])`

func genC09(r *rng, tier string) *Case {
	const nH = 8
	var setup []Op
	fnOf := map[string]int{}
	fn := func(text string, names ...string) int {
		if i, ok := fnOf[text]; ok {
			return i
		}
		i := len(setup)
		fnOf[text] = i
		setup = append(setup, Op{Kind: "gen", Text: text, ArgNames: names, Fn: i})
		return i
	}
	var ops []Op
	live := []int{}
	isMap := map[int]bool{}
	// maps whose representation keeps the insertion order (literals, host ListMaps and what is derived
	// from them without eval()): for these the order of entries is part of what must not change
	ordered := map[int]bool{}
	// initial handles
	mk := func(slot int) {
		switch r.intn(7) {
		case 6:
			text := "{a:1,b:2}+{c:i}"
			if r.chance(0.4) {
				// a lookup table: twelve entries in one literal (insertion ordered representation)
				text = "{k0:0,k1:10,k2:20,k3:30,k4:40,k5:50,k6:60,k7:70,k8:80,k9:90,k10:100,k11:i}"
			}
			ops = append(ops, Op{Kind: "eval", Fn: fn(text, "i", "v"), Args: []Arg{{K: "int", I: 3}, {K: "int", I: 0}}, Consume: 0, Store: slot + 1})
			isMap[slot] = true
			ordered[slot] = true
		case 0:
			ops = append(ops, Op{Kind: "eval", Fn: fn("numbers(i).map(x->x*2)", "i", "v"), Args: []Arg{{K: "int", I: pick(r, 0, 1, 4, 9, 16)}, {K: "int", I: 0}}, Consume: 0, Store: slot + 1})
		case 1:
			ops = append(ops, Op{Kind: "eval", Fn: fn("let c=numbers(9).map(x->x*3); c", "i", "v"), Args: []Arg{{K: "int", I: 0}, {K: "int", I: 0}}, Consume: 0, Store: slot + 1})
		case 2:
			ops = append(ops, Op{Kind: "eval", Fn: fn("[1,2,3,4,5]", "i", "v"), Args: []Arg{{K: "int", I: 0}, {K: "int", I: 0}}, Consume: 0, Store: slot + 1})
		case 3:
			n := pick(r, 5, 13, 30)
			ops = append(ops, Op{Kind: "eval", Fn: fn("src", "src"), Args: []Arg{{K: "hostlist", I: n, FailAt: pick(r, 0, 0, 1+r.intn(n)), FailOn: pick(r, 1, 2)}}, Consume: 0, Store: slot + 1})
		case 4:
			l := make([]int, pick(r, 0, 1, 6, 17))
			for i := range l {
				l[i] = (i*5 + 1) % 11
			}
			ops = append(ops, Op{Kind: "eval", Fn: fn("src", "src"), Args: []Arg{{K: "ints", L: l}}, Consume: 0, Store: slot + 1})
		default:
			ops = append(ops, Op{Kind: "eval", Fn: fn("src", "src"), Args: []Arg{{K: "map", L: []int{1, 2, 3}[:r.rangeInt(1, 3)]}}, Consume: 0, Store: slot + 1})
			isMap[slot] = true
			ordered[slot] = true
		}
		live = append(live, slot)
	}
	observeAll := func() {
		for _, s := range live {
			ops = append(ops, Op{Kind: "eval", Fn: fn("h", "h"), Args: []Arg{{K: "handle", I: s}}, Consume: -1, Observe: true})
			if r.chance(0.5) {
				ops = append(ops, Op{Kind: "eval", Fn: fn("[h.size(), h.string()]", "h"), Args: []Arg{{K: "handle", I: s}}, Consume: -1, Observe: true})
			}
			if isMap[s] && ordered[s] && r.chance(0.5) {
				// the entries in their order (only where the representation has one)
				ops = append(ops, Op{Kind: "eval", Fn: fn("m.list()", "m"), Args: []Arg{{K: "handle", I: s}}, Consume: -1, Observe: true})
			}
			if isMap[s] && r.chance(0.6) {
				// key by key: lookups need not go the same way as iteration
				ops = append(ops, Op{Kind: "eval", Fn: fn(c09LookupObserver, "m"), Args: []Arg{{K: "handle", I: s}}, Consume: -1, Observe: true})
			}
			if r.chance(0.3) {
				// equality with another value of the same kind: both are immutable, the answer must not change
				var same []int
				for _, t := range live {
					if t != s && isMap[t] == isMap[s] {
						same = append(same, t)
					}
				}
				if len(same) > 0 {
					ops = append(ops, Op{Kind: "eval", Fn: fn("[h=g, g=h]", "h", "g"), Args: []Arg{{K: "handle", I: s}, {K: "handle", I: pick(r, same...)}}, Consume: -1, Observe: true})
				}
			}
		}
	}
	mk(0)
	if r.chance(0.7) {
		mk(1)
	}
	observeAll()
	lastMapParent, lastListParent := -1, -1
	steps := r.rangeInt(2, 10)
	if tier == "thorough" {
		steps = r.rangeInt(2, 12)
	}
	for s := 0; s < steps && len(live) < nH; s++ {
		var lists, maps []int
		for _, h := range live {
			if isMap[h] {
				maps = append(maps, h)
			} else {
				lists = append(lists, h)
			}
		}
		slot := len(live)
		i, v := pick(r, 0, 1, 2, 3, 7), pick(r, 5, 6, 7, 100)
		if len(maps) > 0 && (len(lists) == 0 || r.chance(0.4)) {
			text := pick(r, c09DeriveMap...)
			parent := pick(r, maps...)
			if lastMapParent >= 0 && r.chance(0.6) {
				parent = lastMapParent // a sibling of the previous derivation
			} else if r.chance(0.5) {
				parent = maps[len(maps)-1] // branch from the youngest map
			}
			lastMapParent = parent
			args := []Arg{{K: "handle", I: parent}, {K: "int", I: i}, {K: "int", I: v}}
			names := []string{"m", "i", "v"}
			if strings.Contains(text, "h") && len(lists) > 0 {
				names = append(names, "h")
				args = append(args, Arg{K: "handle", I: pick(r, lists...)})
			} else if strings.Contains(text, "l:h") || strings.Contains(text, ", h)") {
				continue
			}
			ops = append(ops, Op{Kind: "eval", Fn: fn(text, names...), Args: args, Consume: 0, Store: slot + 1})
			isMap[slot] = true
			ordered[slot] = ordered[parent] && !strings.Contains(text, "eval") && !strings.Contains(text, "inner") && !strings.Contains(text, "{inner")
		} else if len(lists) > 0 && r.chance(0.15) {
			// a read-only operation on two of the lists: nothing is stored, everything is observed again
			a, b := pick(r, lists...), pick(r, lists...)
			args := []Arg{{K: "handle", I: a}, {K: "handle", I: b}, {K: "int", I: i}, {K: "int", I: v}}
			ops = append(ops, Op{Kind: "eval", Fn: fn(pick(r, c09ReadOnly...), "h", "g", "i", "v"), Args: args, Consume: -1})
			observeAll()
			continue
		} else if len(lists) > 0 {
			text := pick(r, c09Derive...)
			// bias to branching from the same parent
			parent := pick(r, lists...)
			if lastListParent >= 0 && r.chance(0.4) {
				parent = lastListParent // a sibling of the previous derivation
			} else if r.chance(0.3) {
				parent = lists[0]
			} else if r.chance(0.4) {
				parent = lists[len(lists)-1]
			}
			lastListParent = parent
			args := []Arg{{K: "handle", I: parent}, {K: "handle", I: pick(r, lists...)}, {K: "int", I: i}, {K: "int", I: v}}
			cons := pick(r, 0, 0, 0, -1, 2)
			ops = append(ops, Op{Kind: "eval", Fn: fn(text, "h", "g", "i", "v"), Args: args, Consume: cons, Store: slot + 1})
		} else {
			continue
		}
		live = append(live, slot)
		observeAll()
	}
	host := HostTables{Costs: []CostProf{{Base: pick(r, int64(0), 0, 300_000)}}, Fails: []Match{{}, {Kind: "eq", A: pick(r, 2, 4, 6)}}}
	sim, stalls := genSim(r, true, true)
	sc := &Script{Setup: setup, Clients: [][]Op{ops}, Host: host, NFn: len(setup), NHandle: nH}
	return &Case{Class: fmt.Sprintf("steps=%d", steps), Sim: sim, StallF: stalls, Script: sc}
}

// ---------- execution / oracles ----------

var refCache = map[string]Outcome{}

func opKey(text string, names []string, op *Op, host *HostTables) string {
	b, _ := json.Marshal(struct {
		T string
		N []string
		A []Arg
		C int
		H *HostTables
	}{text, names, op.Args, op.Consume, host})
	return string(b)
}

// isolated evaluates one (program, arguments, consumption) on a fresh generator, alone,
// sequentially (NumCPU=1, canonical schedule).
func isolated(text string, names []string, op *Op, host HostTables, o *Obs) Outcome {
	key := opKey(text, names, op, &host)
	if oc, ok := refCache[key]; ok {
		return oc
	}
	sc := &Script{Setup: []Op{{Kind: "gen", Text: text, ArgNames: names}}, Clients: [][]Op{{*op}}, Host: host, NFn: 1}
	sc.Clients[0][0].Fn = 0
	sc.Clients[0][0].Store = 0
	r := runScript(sc, canonicalSim(1), Budgets{MaxYields: 80_000_000, GraceYields: 2_000_000, GraceTime: int64(time.Hour)})
	o.absorb(r)
	oc := Outcome{Skipped: true}
	if r.Outcomes[0][0].Ok && len(r.Outcomes[1]) == 1 && r.Res.End != "panic" && r.Res.End != "deadlock" {
		oc = r.Outcomes[1][0]
	} else if !r.Outcomes[0][0].Ok {
		oc = Outcome{Skipped: true}
	} else {
		oc = Outcome{Done: false}
	}
	if len(refCache) > 20000 {
		refCache = map[string]Outcome{}
	}
	refCache[key] = oc
	return oc
}

func execHist(c *Case, sc *Script, o *Obs) {
	b := Budgets{MaxYields: 120_000_000, GraceYields: 20_000_000, GraceTime: int64(time.Hour)}
	prop := c.Prop
	judge := func(name string, r *RunOut) {
		res := r.Res
		if r.Races > 0 {
			raceVerdicts(prop, name, o)
		}
		switch res.End {
		case "deadlock":
			o.add(name, prop+":deadlock", fmt.Sprintf("%+v", res.Leftover))
			return
		case "panic":
			o.add(name, prop+":panic-escaped:"+res.Panic.Role, res.Panic.Value)
			return
		case "yield-budget", "decision-budget", "time-budget":
			if !res.RootDone {
				o.add(name, prop+":hang", res.End)
				return
			}
		}
		if prop == "C09" {
			judgeC09(name, sc, r, o)
		} else {
			judgeC10(name, prop, sc, r, o)
		}
	}
	_, test := twoRuns(c, sc, b, o, judge)
	n := 0
	for _, oc := range test.Outcomes[1:] {
		n += len(oc)
	}
	o.Outcome = fmt.Sprintf("%d operations", n)
	switch prop {
	case "C11":
		o.NonTrivial = len(sc.Clients) >= 2 && test.Res.Stats.Switches >= 4
	default:
		o.NonTrivial = n >= 2
	}
}

func judgeC10(name, prop string, sc *Script, r *RunOut, o *Obs) {
	// program text per function slot, tracked through the history of gen ops (setup first;
	// client gen ops only occur with a single client)
	texts := make([]string, max(sc.NFn, 1))
	names := make([][]string, len(texts))
	for _, op := range sc.Setup {
		if op.Kind == "gen" && op.Fn >= 0 && op.Fn < len(texts) {
			texts[op.Fn], names[op.Fn] = op.Text, op.ArgNames
		}
	}
	for ci, ops := range sc.Clients {
		opText := make([]string, len(ops))
		opNames := make([][]string, len(ops))
		for j := range ops {
			op := &ops[j]
			got := r.Outcomes[1+ci][j]
			if op.Kind == "force" {
				if got.Skipped || !got.Done || op.Ref < 0 || op.Ref >= j || ops[op.Ref].Kind != "eval" || opText[op.Ref] == "" ||
					ops[op.Ref].Store == 0 || len(op.Args) != 1 || op.Args[0].I != ops[op.Ref].Store-1 {
					continue
				}
				if o0 := r.Outcomes[1+ci][op.Ref]; !o0.Done || !o0.Ok {
					continue
				}
				full := ops[op.Ref]
				full.Consume = -1
				transient := false
				for _, a := range full.Args {
					if a.K == "hostlist" && a.FailAt > 0 {
						transient = true // outcome depends on the traversal count by construction
					}
				}
				if transient {
					continue
				}
				want := isolated(opText[op.Ref], opNames[op.Ref], &full, sc.Host, o)
				if want.Skipped || !want.Done {
					continue
				}
				if want.class() != got.class() {
					o.add(name, prop+":late-consumption-differs-from-isolated:"+progID(opText[op.Ref]), fmt.Sprintf("client %d op %d consumes the result of op %d (%s, args %s) after later evaluations: isolated=%s here=%s (%s)",
						ci, j, op.Ref, opText[op.Ref], argString(full.Args), trunc(want.class(), 160), trunc(got.class(), 160), trunc(got.Err, 200)))
				}
				continue
			}
			if op.Kind == "eval" && op.Fn >= 0 && op.Fn < len(texts) {
				opText[j], opNames[j] = texts[op.Fn], names[op.Fn]
			}
			if op.Kind == "gen" {
				// a Generate that failed leaves the slot as it was
				if op.Fn >= 0 && op.Fn < len(texts) && got.Done && got.Ok {
					texts[op.Fn], names[op.Fn] = op.Text, op.ArgNames
				}
				continue
			}
			if got.Skipped || !got.Done || op.Fn < 0 || op.Fn >= len(texts) || texts[op.Fn] == "" {
				continue
			}
			want := isolated(texts[op.Fn], names[op.Fn], op, sc.Host, o)
			if want.Skipped || !want.Done {
				continue
			}
			if want.Ok != got.Ok && (strings.Contains(got.Err, "injected transient source failure") || strings.Contains(want.Err, "injected transient source failure")) {
				// A host source that fails at one element: whether an early-stopping consumer (top, first,
				// present ...) gets to see that failure depends on how far a parallel stage has read ahead,
				// which is a matter of C06/C08 (and not claimed there), not of the history.
				o.tag("transient-source-failure-read-ahead")
				continue
			}
			if want.class() != got.class() {
				// the program is part of the signature: a known finding about one program (e.g. a
				// constant list that is appended to concurrently) does not cover other programs
				sig := prop + ":outcome-differs-from-isolated:" + progID(texts[op.Fn])
				o.add(name, sig, fmt.Sprintf("client %d op %d: %s with args %s consume=%d: isolated=%s here=%s (%s)",
					ci, j, texts[op.Fn], argString(op.Args), op.Consume, trunc(want.class(), 160), trunc(got.class(), 160), trunc(got.Err, 200)))
			}
		}
	}
}

// topLevelCount counts the elements of a canonical list rendering "[a,b,[c,d]]"
func topLevelCount(c string) int {
	if len(c) < 2 || c == "[]" {
		return 0
	}
	depth, n, inStr := 0, 1, false
	for i := 1; i < len(c)-1; i++ {
		switch ch := c[i]; {
		case inStr:
			if ch == '\\' {
				i++
			} else if ch == '"' {
				inStr = false
			}
		case ch == '"':
			inStr = true
		case ch == '[' || ch == '{':
			depth++
		case ch == ']' || ch == '}':
			depth--
		case ch == ',' && depth == 0:
			n++
		}
	}
	return n
}

// progID names a library program by its position, or by a hash for other texts
func progID(text string) string {
	for i, p := range histProgs {
		if p == text {
			return fmt.Sprintf("prog%02d", i)
		}
	}
	h := uint32(2166136261)
	for i := 0; i < len(text); i++ {
		h = (h ^ uint32(text[i])) * 16777619
	}
	return fmt.Sprintf("h%08x", h)
}

func argString(a []Arg) string {
	b, _ := json.Marshal(a)
	return trunc(string(b), 200)
}

// judgeC09: every successful observation of a handle must equal the first one, whatever
// happened in between; a second derivation with the same operation and arguments from
// unchanged parents must be observed equal to the first.
func judgeC09(name string, sc *Script, r *RunOut, o *Obs) {
	for _, d := range r.HostChanged {
		o.add(name, "C09:host-value-changed", d+": an operation of the language wrote through into a slice the host had handed over")
	}
	if len(sc.Clients) != 1 {
		return
	}
	ops := sc.Clients[0]
	outs := r.Outcomes[1]
	texts := make([]string, len(sc.Setup))
	for _, op := range sc.Setup {
		if op.Fn >= 0 && op.Fn < len(texts) {
			texts[op.Fn] = op.Text
		}
	}
	lastCount := map[int]int{}
	first := map[string]string{} // (handle, observer) -> first successful observation
	firstAt := map[string]int{}
	lastDerive := ""
	for j := range ops {
		op := &ops[j]
		if j >= len(outs) || !outs[j].Done {
			break
		}
		if !op.Observe || op.Consume != -1 {
			if op.Fn >= 0 && op.Fn < len(texts) {
				lastDerive = fmt.Sprintf("op %d: %s %s -> h%d (%s)", j, texts[op.Fn], argString(op.Args), op.Store-1, outs[j].class())
			}
			continue
		}
		if len(op.Args) == 0 || outs[j].Skipped {
			continue
		}
		key := fmt.Sprintf("h%d/%d", op.Args[0].I, op.Fn)
		if len(op.Args) > 1 && op.Args[1].K == "handle" {
			key += fmt.Sprintf("/h%d", op.Args[1].I)
		}
		if !outs[j].Ok {
			continue // a failing observation (injected fault) is no value
		}
		if strings.Contains(texts[op.Fn], "string()") && strings.Contains(outs[j].Val, "{") {
			// the string form of an evaluated (Go-map backed) map has no specified key order;
			// maps are compared through the key-sorted canonical observer only
			continue
		}
		// cross-observer consistency: size() must agree with the number of elements the
		// element-wise observation of the same handle showed last
		if strings.HasPrefix(outs[j].Val, "[i") && strings.Contains(texts[op.Fn], "h.size()") {
			if n, ok := lastCount[op.Args[0].I]; ok {
				var sz int
				fmt.Sscanf(outs[j].Val, "[i%d", &sz)
				if sz != n {
					o.add(name, "C09:observers-disagree", fmt.Sprintf("handle h%d: size() = %d but iterating it yields %d elements (op %d); last operation before: %s", op.Args[0].I, sz, n, j, lastDerive))
				}
			}
		} else if texts[op.Fn] == "h" && strings.HasPrefix(outs[j].Val, "[") {
			lastCount[op.Args[0].I] = topLevelCount(outs[j].Val)
		}
		if f, ok := first[key]; !ok {
			first[key] = outs[j].Val
			firstAt[key] = j
		} else if f != outs[j].Val {
			o.add(name, "C09:value-changed", fmt.Sprintf("handle h%d observed by %q: first (op %d) %s, now (op %d) %s; last operation before: %s",
				op.Args[0].I, texts[op.Fn], firstAt[key], trunc(f, 200), j, trunc(outs[j].Val, 200), lastDerive))
		}
	}
}
