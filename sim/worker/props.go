package main

import (
	"fmt"
	"hash/fnv"
	"os"
	"regexp"
	"sort"
	"strings"
	"time"

	"verif.local/simrt"
)

type StallF struct {
	Frac float64 `json:"frac"`
	Dur  int64   `json:"dur"`
}

// Expect carries the per-property expectations fixed by the generator.
type Expect struct {
	// C04
	Bound bool `json:"bound,omitempty"` // optimizer off: the linear yield bound applies
	// C05
	Fault string `json:"fault,omitempty"`
	Ctx   string `json:"ctx,omitempty"`
	Try   bool   `json:"try,omitempty"`
	// C06
	Full    bool `json:"full,omitempty"`    // terminal consumes everything
	HasFail bool `json:"hasfail,omitempty"` // some element may fail
	// C08
	Drop      bool   `json:"drop,omitempty"`
	Need      int    `json:"need,omitempty"` // index of the last source element the consumer needs
	Dec       int    `json:"dec,omitempty"`  // index of the decisive source element (without any read-ahead)
	HasDec    bool   `json:"hasdec,omitempty"`
	SparseAt  int    `json:"sparseat,omitempty"` // an upstream accept passes only values <= SparseAt
	Need2     int    `json:"need2,omitempty"`    // same for the lazy second operand of cross/merge/+ (probe stage 15); -1 = none at all
	Has2      bool   `json:"has2,omitempty"`
	Merge     bool   `json:"merge,omitempty"`  // the pipeline contains merge: its channel producers keep iterating after an early stop (known)
	S         int    `json:"s,omitempty"`      // lazy stages + 1
	ParSt     int    `json:"parst,omitempty"`  // stages that may go parallel
	FailAt    int    `json:"failat,omitempty"` // source index of the failing element + 1 (0 = none)
	Fair      bool   `json:"fair,omitempty"`   // uniform costs, no stalls, no PCT
	Huge      bool   `json:"huge,omitempty"`   // source >= 1e9 elements
	Term      string `json:"term,omitempty"`
	TermProbe int    `json:"termprobe,omitempty"` // stage id of the probe inside the consumer's own closure (0 = none)
	TermK     int    `json:"termk,omitempty"`     // the value at which that consumer decides
	Reuse     bool   `json:"reuse,omitempty"`     // the list is consumed completely once before the short-circuit consumer sees it
	N         int    `json:"n,omitempty"`         // its length
}

type Case struct {
	Prop   string     `json:"prop"`
	ID     string     `json:"id"`
	Class  string     `json:"class,omitempty"`
	Sim    SimCfg     `json:"sim"`
	StallF []StallF   `json:"stallf,omitempty"`
	Script *Script    `json:"script,omitempty"`
	Pipe   *Pipe      `json:"pipe,omitempty"`
	Host   HostTables `json:"host"`
	X      Expect     `json:"x"`
}

type Verdict struct {
	Sig    string `json:"sig"`
	Detail string `json:"detail,omitempty"`
	Run    string `json:"run,omitempty"` // which run of the case: base | test
}

type RunStats struct {
	Runs      int   `json:"runs"`
	Yields    int64 `json:"yields"`
	Decisions int64 `json:"decisions"`
	SimTime   int64 `json:"simtime"`
	Tasks     int   `json:"tasks"`
	MaxLive   int   `json:"maxlive"`
	Switches  int64 `json:"switches"`
	SelMulti  int64 `json:"selmulti"`
	PickMulti int64 `json:"pickmulti"`
	Timers    int64 `json:"timers"`
	Stalls    int64 `json:"stalls"`
	Preempts  int64 `json:"preempts"`
	Rendezv   int64 `json:"rendezvous"`
}

type Obs struct {
	ID            string    `json:"id"`
	Prop          string    `json:"prop"`
	Class         string    `json:"class,omitempty"`
	Invalid       string    `json:"invalid,omitempty"`
	Verdicts      []Verdict `json:"verdicts,omitempty"`
	FP            string    `json:"fp,omitempty"`
	Decisions     []int64   `json:"decisions,omitempty"`
	TestDecisions []int64   `json:"-"`
	Resolved      *Case     `json:"resolved,omitempty"`
	NonTrivial    bool      `json:"nontrivial"`
	Tags          []string  `json:"tags,omitempty"`
	Stats         RunStats  `json:"stats"`
	Fired         [8]int    `json:"fired"`
	Outcome       string    `json:"outcome,omitempty"`
	OutErr        string    `json:"outerr,omitempty"`
	Log           []string  `json:"log,omitempty"`
	Policy        string    `json:"policy,omitempty"`
	OutDigest     string    `json:"-"`
}

var outDump = os.Getenv("VERIF_OUTDUMP") != ""

func (o *Obs) add(run, sig, detail string) {
	for _, v := range o.Verdicts {
		if v.Sig == sig {
			return
		}
	}
	o.Verdicts = append(o.Verdicts, Verdict{Sig: sig, Detail: trunc(detail, 600), Run: run})
}

func (o *Obs) tag(t string) {
	for _, x := range o.Tags {
		if x == t {
			return
		}
	}
	o.Tags = append(o.Tags, t)
}

func (o *Obs) absorb(r *RunOut) {
	s := r.Res.Stats
	o.Stats.Runs++
	o.Stats.Yields += s.Yields
	o.Stats.Decisions += s.Decisions
	o.Stats.SimTime += s.SimTime
	o.Stats.Tasks += s.Tasks
	if s.MaxLive > o.Stats.MaxLive {
		o.Stats.MaxLive = s.MaxLive
	}
	o.Stats.Switches += s.Switches
	o.Stats.SelMulti += s.SelectMulti
	o.Stats.PickMulti += s.PickMulti
	o.Stats.Timers += s.TimersFired
	o.Stats.Stalls += s.StallsFired
	o.Stats.Preempts += s.Preemptions
	o.Stats.Rendezv += s.Rendezvous
	for i, v := range r.Host.firedArr {
		o.Fired[i] += v
	}
	o.Fired[fStall] += int(s.StallsFired)
	for role := range s.Roles {
		switch {
		case strings.Contains(role, "initParallel"):
			o.tag("parallel")
		case strings.Contains(role, "ToChan"):
			o.tag("tochan")
		case strings.Contains(role, "MultiUse"):
			o.tag("multiuse")
		}
	}
	if s.SelectMulti > 0 {
		o.tag("select-multi")
	}
	if s.TimersFired > 0 {
		o.tag("timer-fired")
	}
	if s.PanicOnRole != "" && s.PanicOnRole != "root" && s.PanicOnRole != "client" {
		o.tag("panic-off-caller")
	}
}

var keepLog = os.Getenv("VERIF_SIMLOG") != ""

// resolve turns fractional stall positions / PCT length into absolute numbers.
func (c *Case) resolve(estYields int64) {
	if estYields < 64 {
		estYields = 64
	}
	if len(c.StallF) > 0 {
		for _, f := range c.StallF {
			at := int64(f.Frac * float64(estYields))
			c.Sim.Stalls = append(c.Sim.Stalls, simrt.Stall{At: at, Dur: f.Dur})
		}
		sort.Slice(c.Sim.Stalls, func(i, j int) bool { return c.Sim.Stalls[i].At < c.Sim.Stalls[j].At })
		c.StallF = nil
	}
	if c.Sim.Policy == "pct" && c.Sim.PCTLen == 0 {
		c.Sim.PCTLen = estYields
	}
}

func (c *Case) script() (*Script, error) {
	if c.Pipe != nil {
		return c.Pipe.script(c.Host)
	}
	if c.Script == nil {
		return nil, fmt.Errorf("case has neither script nor pipe")
	}
	return c.Script, nil
}

func canonicalSim(numcpu int) SimCfg { return SimCfg{NumCPU: numcpu, Policy: "canonical"} }

// baseSim is the canonical schedule with the machine configuration of the case
func baseSim(c *Case) SimCfg {
	return SimCfg{NumCPU: c.Sim.NumCPU, GoMaxProcs: c.Sim.GoMaxProcs, Policy: "canonical"}
}

func clientOutcome(r *RunOut) Outcome {
	if len(r.Outcomes) > 1 && len(r.Outcomes[1]) > 0 {
		return r.Outcomes[1][len(r.Outcomes[1])-1]
	}
	return Outcome{}
}

// exec runs one case and judges it.
func exec(c *Case) *Obs {
	hostRecovers = c.Prop != "C05"
	o := &Obs{ID: c.ID, Prop: c.Prop, Class: c.Class, Policy: c.Sim.Policy}
	sc, err := c.script()
	if err != nil {
		o.Invalid = err.Error()
		return o
	}
	if c.Sim.NumCPU <= 0 {
		c.Sim.NumCPU = 1
	}
	switch c.Prop {
	case "C04":
		execC04(c, sc, o)
	case "C05":
		execC05(c, sc, o)
	case "C06":
		execC06(c, sc, o)
	case "C08":
		execC08(c, sc, o)
	case "C12":
		execC12(c, sc, o)
	case "C09", "C10", "C11":
		execHist(c, sc, o)
	default:
		o.Invalid = "unknown property " + c.Prop
	}
	if len(o.Verdicts) > 0 {
		o.Resolved = c
	}
	return o
}

// resolveLike copies the resolved simulation parameters (absolute stalls, PCT length) of a
// case that has been executed
func (c *Case) resolveLike(done *Case) {
	c.Sim = done.Sim
	c.Sim.Decisions = nil
	c.StallF = nil
}

func (o *Obs) finishTest(c *Case, r *RunOut) {
	o.TestDecisions = r.Res.Decisions
	if oc := clientOutcome(r); oc.Done && !oc.Ok {
		o.OutErr = trunc(oc.Err, 400)
	}
	o.FP = fmt.Sprintf("%016x", r.Res.Fingerprint)
	if len(o.Verdicts) > 0 || c.Sim.UseDecs {
		o.Decisions = r.Res.Decisions
	}
	if keepLog {
		o.Log = r.Res.Log
	}
}

// twoRuns executes the canonical base run (same NumCPU, same costs) and the run
// under test. In replay mode only the test run is executed.
func twoRuns(c *Case, sc *Script, b Budgets, o *Obs, judge func(name string, r *RunOut)) (base, test *RunOut) {
	b.KeepLog = keepLog
	if !c.Sim.UseDecs {
		base = runScript(sc, baseSim(c), b)
		o.absorb(base)
		judge("base", base)
		c.resolve(base.Res.Stats.Yields)
		if outDump {
			o.OutDigest = outDigest(base)
		}
		if c.Sim.Policy == "" || c.Sim.Policy == "canonical" {
			if len(c.Sim.Stalls) == 0 {
				o.finishTest(c, base)
				return base, base
			}
		}
	}
	test = runScript(sc, c.Sim, b)
	o.absorb(test)
	judge("test", test)
	o.finishTest(c, test)
	return base, test
}

// outDigest renders the outcomes of all operations of a run (setup and clients) in a
// short form; used by sim/diff_trees.sh to compare two versions of the library on the
// same generated cases (functional regression net for repairs made in /repo).
func outDigest(r *RunOut) string {
	if r == nil {
		return ""
	}
	h := fnv.New64a()
	var first string
	for _, ops := range r.Outcomes {
		for _, oc := range ops {
			c := oc.class()
			if !oc.Ok && oc.Done && !oc.Skipped {
				c = "error"
			}
			h.Write([]byte(c))
			h.Write([]byte{0})
			if first == "" && oc.Done && !oc.Skipped && len(ops) > 0 {
				first = trunc(c, 60)
			}
		}
	}
	if os.Getenv("VERIF_OUTDUMP") == "full" {
		var all []string
		for _, ops := range r.Outcomes {
			for _, oc := range ops {
				all = append(all, trunc(oc.class(), 600)+"/"+trunc(oc.Err, 100))
			}
		}
		return fmt.Sprintf("%016x %s %s", h.Sum64(), r.Res.End, strings.Join(all, " ; "))
	}
	return fmt.Sprintf("%016x %s %s", h.Sum64(), r.Res.End, first)
}

// ---------- C04 ----------

func execC04(c *Case, sc *Script, o *Obs) {
	n := int64(len(sc.Setup[0].text()))
	bound := 5000 * (n + 16)
	b := Budgets{MaxYields: 3_000_000 + 40_000_000}
	if c.X.Bound {
		b.MaxYields = 3_000_000 + 2*bound
	}
	var classes []string
	judge := func(name string, r *RunOut) {
		res := r.Res
		oc := r.Outcomes[0][0]
		switch res.End {
		case "panic":
			o.add(name, "C04:panic:"+res.Panic.Role, res.Panic.Value+"\n"+trunc(res.Panic.Stack, 400))
		case "deadlock":
			o.add(name, "C04:deadlock", fmt.Sprintf("%+v", res.Leftover))
		case "yield-budget", "decision-budget", "time-budget":
			if c.X.Bound {
				o.add(name, "C04:nonterminating", fmt.Sprintf("no result within %d yields for %d input bytes", b.MaxYields, n))
			} else {
				o.tag("inconclusive-budget")
			}
		}
		if oc.Done {
			if oc.Err == "NO-RESULT" {
				o.add(name, "C04:no-result", "Generate returned (nil, nil)")
			}
			if c.X.Bound && oc.Y1-oc.Y0 > bound {
				o.add(name, "C04:superlinear", fmt.Sprintf("%d yields for %d bytes (bound %d)", oc.Y1-oc.Y0, n, bound))
			}
			if ab := uint64(4<<20) + uint64(20<<10)*uint64(n); c.X.Bound && oc.Alloc > ab {
				sig := "C04:superlinear-alloc"
				if el := int64(len(oc.Err)); !oc.Ok && el >= n/2 && el <= 2*n+512 {
					// the error message quotes the whole expression once: AST.String() of a deeply nested
					// tree (every level copies the text of its subtree) - the known mechanism
					sig += ":error-quotes-expression"
				}
				o.add(name, sig, fmt.Sprintf("%d MiB allocated while generating from %d input bytes (bound %d MiB, error message of %d bytes): work that the yield counter cannot see (standard library)", oc.Alloc>>20, n, ab>>20, len(oc.Err)))
			}
			if oc.Ok {
				classes = append(classes, "ok")
			} else {
				classes = append(classes, "err")
			}
		} else {
			classes = append(classes, "none")
		}
	}
	_, test := twoRuns(c, sc, b, o, judge)
	if len(classes) == 2 && classes[0] != classes[1] && classes[0] != "none" && classes[1] != "none" {
		o.add("test", "C04:schedule-dependent", classes[0]+" vs "+classes[1])
	}
	oc := test.Outcomes[0][0]
	o.Outcome = oc.class()
	o.NonTrivial = !oc.Ok || n >= 1024
}

// ---------- C12 ----------

func judgeLeftover(prop, name string, r *RunOut, huge bool, sparse bool, o *Obs) {
	res := r.Res
	// a filter that passes nothing behind some value: a producer that was told to stop "at its next
	// item" never gets one (own signature: the asynchronous-stop weakness, see known findings)
	bg := ":background:"
	if sparse {
		bg = ":background-sparse:"
	}
	for _, g := range r.Unmanaged {
		o.add(name, prop+":unmanaged-goroutine:"+g.Fn, fmt.Sprintf("goroutine %s [%s] entered the library at %s and is parked in %s after the call returned and all scheduled tasks were gone (a goroutine obtained without a go statement: coroutine/timer)", g.ID, g.State, g.Fn, g.Top))
	}
	if !res.RootDone {
		o.tag("aborted:" + res.End)
		return
	}
	switch res.End {
	case "quiescent":
		for _, l := range res.Leftover {
			o.add(name, prop+":stranded:"+l.Role+"@"+l.Op, fmt.Sprintf("%s#%d parked forever at %s (%s) after the call returned", l.Role, l.Ordinal, l.Site, l.Op))
		}
	case "grace-yields", "grace-time", "grace-decisions", "yield-budget", "decision-budget", "time-budget":
		// A channel producer (iterator.ToChan) that keeps iterating after its consumer has
		// gone keeps its whole upstream pipeline busy, including the workers of parallel
		// stages in it: those are driven by the producer, not independently busy. Report
		// the producer only; pipelines without a channel producer (the majority of the
		// generated cases) cannot use this attribution.
		driver := false
		var total int64
		for _, l := range res.Leftover {
			total += l.YieldsAfterRoot
		}
		for _, l := range res.Leftover {
			if strings.Contains(l.Role, "iterator.ToChan") && total >= 1000 {
				driver = true
				o.add(name, prop+bg+l.Role, fmt.Sprintf("%s#%d has not terminated and keeps pulling its source (%s, %s) %s after the call returned; yields passed by leftover tasks since the return: %d",
					l.Role, l.Ordinal, l.State, l.Op, res.End, total))
			}
		}
		for _, l := range res.Leftover {
			if driver {
				if !strings.Contains(l.Role, "iterator.ToChan") {
					o.tag("driven-by-channel-producer")
				}
				continue
			}
			// only tasks that were actually busy after the call returned: a task that is
			// merely alive may have been starved by the busy one for the whole grace period
			if l.State != "blocked" && l.YieldsAfterRoot >= 1000 {
				o.add(name, prop+bg+l.Role, fmt.Sprintf("%s#%d still %s (%s) %s after the call returned; yields since return=%d, simulated time since return=%v",
					l.Role, l.Ordinal, l.State, l.Op, res.End, res.Stats.Yields-res.Stats.RootDoneAtY, time.Duration(res.Stats.SimTime-res.Stats.RootDoneAtT)))
			}
		}
	}
}

func execC12(c *Case, sc *Script, o *Obs) {
	b := Budgets{MaxYields: 60_000_000, GraceYields: 20_000_000, GraceTime: int64(time.Hour)}
	if c.X.Huge {
		b.GraceYields = 50_000
		b.GraceDecs = 20_000
		// Simulated time is free (the clock jumps): an element that is being computed when the
		// consumer stops (a host function of minutes) cannot be interrupted by any implementation and
		// ends by itself; what must not happen is work that goes on, and that costs yields.
		b.GraceTime = int64(6 * time.Hour)
	}
	judge := func(name string, r *RunOut) {
		judgeLeftover("C12", name, r, c.X.Huge, c.X.SparseAt > 0, o)
		if r.Res.Stats.Tasks > 1 {
			oc := clientOutcome(r)
			if !oc.Ok || r.Res.Stats.Tasks > 2 {
				o.NonTrivial = true
			}
		}
	}
	_, test := twoRuns(c, sc, b, o, judge)
	o.Outcome = clientOutcome(test).class()
}

// ---------- C06 ----------

func execC06(c *Case, sc *Script, o *Obs) {
	b := Budgets{MaxYields: 80_000_000, GraceYields: 20_000_000, GraceTime: int64(time.Hour)}
	refSc := *sc
	refSc.Host.Costs = nil
	// The runs under judgement come first and the sequential reference last: package-level
	// state of the library (caches, registries) survives from run to run inside this process,
	// and a sequential first run would initialise it before any concurrent run could race on it.
	type pending struct {
		name string
		r    *RunOut
	}
	var runs []pending
	collect := func(name string, r *RunOut) {
		if r.Races > 0 {
			raceVerdicts("C06", name, o)
		}
		runs = append(runs, pending{name, r})
	}
	_, test := twoRuns(c, sc, b, o, collect)
	ref := runScript(&refSc, canonicalSim(1), b)
	o.absorb(ref)
	if ref.Races > 0 {
		raceVerdicts("C06", "ref", o)
	}
	refOut := clientOutcome(ref)
	judge := func(name string, r *RunOut) {
		res := r.Res
		switch res.End {
		case "deadlock":
			o.add(name, "C06:deadlock", fmt.Sprintf("%+v", res.Leftover))
			return
		case "panic":
			o.add(name, "C06:panic-escaped:"+res.Panic.Role, res.Panic.Value)
			return
		case "yield-budget", "decision-budget", "time-budget":
			if !res.RootDone {
				o.add(name, "C06:hang", res.End)
				return
			}
		}
		got := clientOutcome(r)
		if !got.Done || !refOut.Done {
			return
		}
		switch {
		case refOut.Ok && got.Ok:
			if refOut.Val != got.Val {
				o.add(name, "C06:mismatch", fmt.Sprintf("sequential=%s scheduled=%s", trunc(refOut.Val, 200), trunc(got.Val, 200)))
			}
		case refOut.Ok && !got.Ok:
			o.add(name, "C06:mismatch:spurious-error", fmt.Sprintf("sequential=%s scheduled error=%s", trunc(refOut.Val, 120), trunc(got.Err, 300)))
		case !refOut.Ok && got.Ok:
			if c.X.Full {
				o.add(name, "C06:mismatch:error-lost", fmt.Sprintf("sequential error=%s scheduled=%s", trunc(refOut.Err, 200), trunc(got.Val, 120)))
			}
		}
	}
	for _, p := range runs {
		judge(p.name, p.r)
	}
	// the replay decisions belong to the run under test; verdicts may have been added after finishTest
	if len(o.Verdicts) > 0 {
		o.Decisions = test.Res.Decisions
	}
	o.Outcome = clientOutcome(test).class()
	for _, t := range o.Tags {
		if t == "parallel" || t == "tochan" || t == "multiuse" {
			o.NonTrivial = true
		}
	}
}

// ---------- C05 ----------

func execC05(c *Case, sc *Script, o *Obs) {
	b := Budgets{MaxYields: 80_000_000, GraceYields: 5_000_000, GraceTime: int64(time.Hour)}
	judge := func(name string, r *RunOut) {
		res := r.Res
		switch res.End {
		case "panic":
			o.add(name, "C05:panic-escaped:"+res.Panic.Role, fmt.Sprintf("fault=%s ctx=%s: %s", c.X.Fault, c.X.Ctx, res.Panic.Value))
			return
		case "deadlock":
			o.add(name, "C05:deadlock:"+c.X.Ctx, fmt.Sprintf("fault=%s: %+v", c.X.Fault, res.Leftover))
			return
		case "yield-budget", "decision-budget", "time-budget":
			if !res.RootDone {
				o.add(name, "C05:hang:"+c.X.Ctx, res.End)
				return
			}
		}
		if g := r.Outcomes[0][0]; !g.Ok {
			o.Invalid = "program did not generate: " + g.Err
			return
		}
		got := clientOutcome(r)
		if !got.Done {
			return
		}
		if c.X.Fault == "boundary" || c.X.Fault == "concurrent-benign" || strings.HasSuffix(c.X.Ctx, "-early") {
			return // any value or error is fine: the oracle is "no crash, no hang"
		}
		if c.X.Try {
			switch {
			case !got.Ok:
				o.add(name, "C05:uncatchable:"+c.X.Fault, fmt.Sprintf("ctx=%s: try/catch did not intercept: %s", c.X.Ctx, trunc(got.Err, 300)))
			case got.Val != "i-77":
				o.add(name, "C05:wrong-catch-value:"+c.X.Fault, fmt.Sprintf("ctx=%s: got %s", c.X.Ctx, trunc(got.Val, 100)))
			}
		} else if got.Ok {
			o.add(name, "C05:no-error:"+c.X.Fault, fmt.Sprintf("ctx=%s: evaluation returned %s", c.X.Ctx, trunc(got.Val, 100)))
		}
	}
	_, test := twoRuns(c, sc, b, o, judge)
	o.Outcome = clientOutcome(test).class()
	o.NonTrivial = true
}

// ---------- C08 ----------

func execC08(c *Case, sc *Script, o *Obs) {
	x := c.X
	window := int64(x.S)
	w := int64(c.Sim.NumCPU)
	parWindow := window + 4*w*int64(x.ParSt) + 8
	perElem := int64(2000) * int64(x.S+1)
	maxNeeded := (int64(x.Need) + parWindow + 64) * perElem
	if x.Reuse {
		maxNeeded += int64(max(x.N, 300)) * perElem // the first, complete pass
	}
	b := Budgets{MaxYields: 4_000_000 + 3*maxNeeded, GraceYields: 200_000, GraceTime: int64(time.Second)}
	if !x.Drop {
		b.AbortAbove = int64(x.Need) + parWindow + 3000
	}
	judge := func(name string, r *RunOut) {
		res := r.Res
		h := r.Host
		par := false
		for role := range res.Stats.Roles {
			if strings.Contains(role, "initParallel") {
				par = true
			}
		}
		mode := "sequential"
		if par {
			mode = "parallel"
		}
		unboundedSig := "C08:demand-unbounded:parallel:head-of-line"
		if x.Drop {
			if h.nProbe > 0 {
				o.add(name, "C08:eager-build:closure-ran", fmt.Sprintf("%d closure evaluations while only building the pipeline", h.nProbe))
			}
			for role := range res.Stats.Roles {
				if role != "root" && !strings.Contains(role, "Tokenizer") {
					o.add(name, "C08:eager-build:task:"+role, "a goroutine was started while only building the pipeline")
				}
			}
			return
		}
		switch res.End {
		case "panic":
			o.tag("aborted:panic")
			return
		case "deadlock":
			o.add(name, "C08:deadlock:"+mode, fmt.Sprintf("%+v", res.Leftover))
			return
		}
		if !res.RootDone && !strings.HasPrefix(res.End, "aborted:") {
			if par && x.SparseAt > 0 {
				o.add(name, "C08:demand-unbounded:parallel:stop-needs-next-item", "evaluation did not finish within the yield budget: "+res.End)
			} else if par && !x.Fair {
				o.add(name, unboundedSig, "evaluation did not finish within the yield budget: "+res.End)
			} else {
				o.add(name, "C08:not-prompt:"+mode+":"+x.Term, fmt.Sprintf("no result within %d yields (decisive element %d)", b.MaxYields, x.Need))
			}
			return
		}
		maxP := int64(-1)
		for i := 0; i < h.nProbe; i++ {
			if h.probeS[i] == 0 && h.probeX[i] > maxP {
				maxP = h.probeX[i]
			}
		}
		bound := int64(x.Need) + window
		if par {
			bound = int64(x.Need) + parWindow
		}
		if x.Reuse {
			// the first pass legitimately evaluates every element once; what the second use may add
			// is the demand of the short-circuit consumer
			n0 := int64(0)
			for i := 0; i < h.nProbe; i++ {
				if h.probeS[i] == 0 {
					n0++
				}
			}
			listN := x.N
			if c.Pipe != nil {
				listN = c.Pipe.N // the shrinker may have shortened the list
			}
			if allowed := int64(listN) + bound + 1; n0 > allowed || h.probeOv {
				d := fmt.Sprintf("%d closure evaluations on the first stage for a list of %d elements that was consumed completely once and then by %s (decisive element %d): at most %d allowed (mode %s)", n0, listN, x.Term, x.Need, allowed, mode)
				if par && !x.Fair {
					o.add(name, unboundedSig, d)
				} else {
					o.add(name, "C08:demand:reused-list:"+mode+":"+x.Term, d)
				}
			}
			maxP = -1
		}
		mergeSig := "C08:demand-unbounded:merge:producers-keep-iterating"
		sparseSig := "C08:demand-unbounded:parallel:stop-needs-next-item"
		if maxP > bound && par && x.SparseAt > 0 {
			o.add(name, sparseSig, fmt.Sprintf("closure evaluated for source element %d although the consumer was decided by element %d (bound %d): a parallel stage behind a filter that passes nothing after value %d only notices the stop when its source delivers another item", maxP, x.Need, bound, x.SparseAt))
			maxP = -1 // reported
		}
		if maxP > bound && x.Merge && !(par && !x.Fair) {
			o.add(name, mergeSig, fmt.Sprintf("closure evaluated for source element %d although the consumer behind merge was decided by element %d (bound %d): the channel producers of merge keep iterating after the consumer stopped", maxP, x.Need, bound))
		} else if maxP > bound {
			d := fmt.Sprintf("closure evaluated for source element %d; decisive element %d, allowed read-ahead up to %d (mode %s, W=%d)", maxP, x.Need, bound, mode, w)
			if par && !x.Fair {
				o.add(name, unboundedSig, d)
			} else if par {
				o.add(name, "C08:demand:parallel-fair:"+x.Term, d)
			} else {
				o.add(name, "C08:demand:sequential:"+x.Term, d)
			}
		}
		if x.TermProbe > 0 && !x.Reuse {
			maxT := int64(-1)
			for i := 0; i < h.nProbe; i++ {
				if int(h.probeS[i]) == x.TermProbe && h.probeX[i] > maxT {
					maxT = h.probeX[i]
				}
			}
			if maxT > int64(x.TermK) {
				o.add(name, "C08:demand:consumer-closure:"+x.Term, fmt.Sprintf("the closure of %s itself was evaluated for the element with value %d; it decides at value %d and must not look further (mode %s)", x.Term, maxT, x.TermK, mode))
			}
		}
		if x.Has2 {
			max2 := int64(-1)
			for i := 0; i < h.nProbe; i++ {
				if h.probeS[i] == 15 && h.probeX[i] > max2 {
					max2 = h.probeX[i]
				}
			}
			b2 := int64(x.Need2) + window + 2
			if par {
				// any map stage - also the one in the second operand - may have switched to
				// parallel execution (a stalled consumer makes its elements look slow)
				b2 = int64(x.Need2) + parWindow + 4*w
			}
			if max2 > b2 && par && !x.Fair {
				o.add(name, unboundedSig, fmt.Sprintf("closure of the second operand evaluated for its element %d; the consumer needs at most its element %d: its parallel workers ran ahead", max2, x.Need2))
			} else if max2 > b2 && x.Merge {
				o.add(name, mergeSig, fmt.Sprintf("closure of the second operand of merge evaluated for its element %d; the consumer needs at most its element %d", max2, x.Need2))
			} else if max2 > b2 {
				o.add(name, "C08:demand:second-operand:"+x.Term, fmt.Sprintf("closure of the second operand evaluated for its element %d; the consumer needs at most its element %d (allowed up to %d)", max2, x.Need2, b2))
			}
		}
		got := clientOutcome(r)
		if got.Done && !got.Ok && x.Term != "single" && x.FailAt > 0 && int64(x.FailAt-1) > bound && par && !x.Fair {
			o.add(name, unboundedSig, fmt.Sprintf("element %d fails far behind the decisive element %d (bound %d) and its error surfaces: workers ran ahead", x.FailAt-1, x.Need, bound))
		} else if got.Done && !got.Ok && x.HasDec && !par && x.FailAt > 0 && x.FailAt-1 > x.Dec {
			// sequential mode: not even the read-ahead element may contribute an error
			o.add(name, "C08:late-error-surfaced:sequential:"+x.Term, fmt.Sprintf("element %d fails; the decisive element is %d, nothing behind it may surface: %s", x.FailAt-1, x.Dec, trunc(got.Err, 200)))
		} else if got.Done && !got.Ok && x.Term != "single" && x.FailAt > 0 && int64(x.FailAt-1) > bound {
			o.add(name, "C08:late-error-surfaced:"+mode+":"+x.Term, fmt.Sprintf("element %d fails, decisive element %d, bound %d: %s", x.FailAt-1, x.Need, bound, trunc(got.Err, 200)))
		}
		if got.Done && got.Y1-got.Y0 > maxNeeded {
			if par && !x.Fair {
				o.add(name, unboundedSig, fmt.Sprintf("%d yields for decisive element %d", got.Y1-got.Y0, x.Need))
			} else {
				o.add(name, "C08:not-prompt:"+mode+":"+x.Term, fmt.Sprintf("%d yields for decisive element %d (bound %d)", got.Y1-got.Y0, x.Need, maxNeeded))
			}
		}
	}
	_, test := twoRuns(c, sc, b, o, judge)
	o.Outcome = clientOutcome(test).class()
	o.NonTrivial = true
}

// ---------- race report parsing ----------

var raceLogPath = os.Getenv("VERIF_RACELOG")
var raceLogOff int64
var reBrackets = regexp.MustCompile(`\[[^\[\]]*\]`)

func stripGenerics(s string) string {
	for {
		n := reBrackets.ReplaceAllString(s, "")
		if n == s {
			return s
		}
		s = n
	}
}

func frameClass(fr string) string {
	fr = stripGenerics(strings.TrimSpace(fr))
	fr = strings.TrimSuffix(fr, "()")
	if i := strings.LastIndex(fr, "/"); i >= 0 {
		fr = fr[i+1:]
	}
	// pkg.(*T).m  | pkg.T.m | pkg.f.func1...
	parts := strings.SplitN(fr, ".", 3)
	if len(parts) < 2 {
		return fr
	}
	pkg, rest := parts[0], strings.Join(parts[1:], ".")
	if strings.HasPrefix(rest, "(*") {
		if j := strings.Index(rest, ")"); j > 0 {
			return pkg + "." + rest[2:j]
		}
	}
	name := parts[1]
	if len(parts) == 3 && len(name) > 0 && name[0] >= 'A' && name[0] <= 'Z' && !strings.HasPrefix(parts[2], "func") && !strings.Contains(parts[2], "-range") {
		// T.method on a value receiver
		if pkg == "funcGen" || pkg == "value" || pkg == "listMap" || pkg == "parser2" {
			return pkg + "." + name
		}
	}
	return pkg + "." + name
}

func inScope(fr string) bool {
	return strings.Contains(fr, "hneemann/parser2") || strings.Contains(fr, "hneemann/iterator")
}

// raceVerdicts reads the reports appended to the race log since the last call.
func raceVerdicts(prop, name string, o *Obs) {
	if raceLogPath == "" {
		o.add(name, prop+":race:unparsed", "race detector reported (no VERIF_RACELOG set)")
		return
	}
	path := fmt.Sprintf("%s.%d", raceLogPath, os.Getpid())
	data, err := os.ReadFile(path)
	if err != nil || int64(len(data)) <= raceLogOff {
		o.add(name, prop+":race:unparsed", "race detector reported but the log could not be read")
		return
	}
	text := string(data[raceLogOff:])
	raceLogOff = int64(len(data))
	for _, rep := range strings.Split(text, "==================") {
		if !strings.Contains(rep, "DATA RACE") {
			continue
		}
		lines := strings.Split(rep, "\n")
		var classes []string
		var tops []string
		for i := 0; i < len(lines); i++ {
			l := lines[i]
			if strings.HasPrefix(l, "Write at") || strings.HasPrefix(l, "Read at") || strings.HasPrefix(l, "Previous write at") || strings.HasPrefix(l, "Previous read at") ||
				strings.HasPrefix(l, "Atomic") || strings.HasPrefix(l, "Previous atomic") {
				chosen := ""
				first := ""
				for j := i + 1; j < len(lines) && strings.TrimSpace(lines[j]) != ""; j += 2 {
					fr := strings.TrimSpace(lines[j])
					if first == "" {
						first = fr
					}
					if inScope(fr) {
						chosen = fr
						break
					}
				}
				if chosen == "" {
					classes = append(classes, "outside:"+frameClass(first))
				} else {
					classes = append(classes, frameClass(chosen))
				}
				tops = append(tops, stripGenerics(first))
			}
		}
		sort.Strings(classes)
		sig := prop + ":race:" + strings.Join(classes, "|")
		if len(classes) > 0 && strings.HasPrefix(classes[0], "outside:") && strings.HasPrefix(classes[len(classes)-1], "outside:") {
			sig = "HARNESS:race:" + strings.Join(classes, "|")
		}
		o.add(name, sig, trunc(stripGenerics(rep), 3000))
	}
}
