import sys,json,collections
sigs=collections.Counter(); ex={}
for l in sys.stdin:
    l=l.strip()
    if not l.startswith('{'): continue
    d=json.loads(l)
    if d['t']=='obs':
        for v in d['obs']['verdicts']:
            sigs[v['sig']]+=1; ex.setdefault(v['sig'],(d['obs']['id'],d['obs'].get('class'),v['detail'][:int(sys.argv[1]) if len(sys.argv)>1 else 160]))
    elif d['t']=='invalid': print('INVALID',d['id'],d['why'][:200])
    elif d['t']=='sum':
        d.pop('fps'); d.pop('samples'); print(json.dumps(d)[:int(sys.argv[2]) if len(sys.argv)>2 else 900])
for s,n in sigs.most_common(): print(n,s,ex[s])
